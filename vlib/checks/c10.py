"""C10 - no input can crash, hang or corrupt memory.

Decided clauses (each a necessary condition, each visible in the code):
GUARD.nonempty  first/last-element accesses on input containers are dominated by size tests on every path from every public entry;
ALLOC.noexcept  no allocation is reachable from a destructor / noexcept function, no catch handler, no nothrow-new - so a
                std::bad_alloc always reaches the caller and cannot hit a noexcept frame;
INT64.product   no product is formed in a signed 64-bit integer type;
T.comparator    the comparators handed to std::sort / std::stable_sort are strict weak orders (an invalid one is UB inside the sort).
Termination, general index bounds, use-after-free in the OutPt/Active graphs and overflow of sums are NOT decided.
"""
import os

from ..astq import AstDB
from ..irdb import Module
from ..engines import e9_safety as e9
from ..engines import e3_tables as e3
from ..engines import e2_state as e2
from ..engines import e13_links as e13
from ..engines import e10_pipeline as e10
from ..extract import AnalysisBroken
from .c12 import RECT, BASE, _public_methods
from ..extract import VERIF

LEVEL = "other"
CONTROL = os.path.join(VERIF, "driver", "controls", "e9_bad.cpp")


def run(chk):
    cfgs = ["base", "z"] if chk.tier == "quick" else ["base", "z", "hi", "noexc", "z+noexc"]
    chk.configs = cfgs
    chk.rule("GUARD.nonempty", "c[0], c[1], c.front(), c.back(), *c.begin(), c.end()-1, c[c.size()-1], c[h] (h = size-1) on parameters, "
             "references and iterators over caller data: dominated by a size fact (forward dataflow with condition refinement); unproved sites in "
             "helpers become preconditions discharged at every call site up to the public entries")
    chk.rule("ALLOC.noexcept", "IR call-graph: operator new is unreachable from every library destructor and noexcept function (libstdc++ bodies "
             "followed; only container.resize(0) is cut); no try/catch; no new(std::nothrow)")
    chk.rule("INT64.product", "no multiplication whose result type is a signed 64-bit integer")
    chk.rule("STALE.pointers", "ClipperBase: horz_seg_list_, horz_join_list_, intersect_nodes_ (raw pointers to OutPt / Active) and outrec_list_ are empty at "
             "every normal exit of every public method (CleanUp frees what they point to); RectClip64 / RectClipLines64: results_, edges_[8], start_locs_ (raw pointers into op_container_) are empty "
             "again at every back edge of the path loop and at every exit - no pointer into a destroyed deque survives")
    chk.rule("HOT.guard", "AddOutPt / AddLocalMaxPoly / IsFront / GetLastOp / JoinOutrecPaths dereference e.outrec: at each of the 47 call sites the edge "
             "is known to carry output (dominating IsHotEdge test, or made hot by AddLocalMinPoly / StartOpenPath on the path); 9 sites rely on "
             "documented sweep invariants and are allow-listed one by one")
    chk.rule("LINK.consistent-at-throw", "symbolic execution of every function that writes OutPt::next / OutPt::prev / OutRec::pts over a small "
             "symbolic heap (all paths; loop-free ring-writing callees inlined; loops cut at head and back edges): at every statement that can "
             "throw (new, growing container, user callback, allocating callee), at every loop cut and at every exit, each output vertex not provably "
             "orphaned satisfies n->next->prev == n and n->prev->next == n and has not been deleted; `delete` only of provably orphaned vertices. "
             "This is what ~ClipperBase -> DisposeAllOutRecs needs to free the rings after a std::bad_alloc")
    chk.rule("ITER.stable", "no range-for / iterator loop over a member container whose body (callees included, E2 summaries) can grow, shrink or "
             "reassign that container")
    chk.rule("RECURSION", "every directly self-recursive library function (18): no container parameter by value (memory = depth x size); where the "
             "function uses a visited mark against cyclic data, every recursive call lies after the mark on every path")
    chk.rule("DEST.sized", "every standard algorithm call that writes through an output iterator appends (back_inserter) or writes to begin() of a "
             "local container constructed with the source range's own size()")
    chk.rule("GUARD", "BuildPath64/D reject a null ring before dereferencing it (the callers' null test precedes CleanCollinear, which can dispose of the whole ring); "
             "entry guard and final filter tables")
    chk.rule("ALLOC.owned", "every `new` kept in a local pointer is handed on (returned, stored, passed to a call - for an array the pointer itself - or deleted) or "
             "known null on every path from the allocation to an exit of the function: no exit leaves the block owned by nobody")
    chk.rule("GUARD.unsigned-decrement", "every loop that counts an unsigned index down tests it strictly (v > e) or against a literal >= 1: it cannot step below "
             "zero and wrap")
    chk.rule("T.comparator", "LocMinSorter, IntersectListSort, HorzSegSorter are strict weak orders")
    for cfg in cfgs:
        db = AstDB(cfg)
        e9.rule_nonempty(db, chk, cfg)
        e9.rule_int64_product(db, chk, cfg)
        if "noexc" not in cfg.split("+"):
            e9.rule_alloc_noexcept(Module(cfg), db, chk, cfg)
        e3.comparators(db, chk, cfg)
        e9.rule_hot_guard(db, chk, cfg)
        e13.rule_links(db, chk, cfg)
        e9.rule_recursion(db, chk, cfg)
        e9.rule_dest_sized(db, chk, cfg)
        e9.rule_unsigned_decrement(db, chk, cfg)
        from ..engines import e10_pipeline as _e10g
        _e10g.rule_guard(db, chk, cfg)           # BuildPath64/D test `op` for null before dereferencing it (CleanCollinear may have disposed of the ring)
        if e9.rule_alloc_owned(db, chk, cfg) < 8:
            raise AnalysisBroken("ALLOC.owned: fewer than 8 allocations into local pointers found (configuration %s)" % cfg)
        e10.rule_iter_stable(db, chk, cfg, lambda cls: e2.E2(db, chk, cfg, cls))
        # dangling OutPt / Active pointers in the sweep engine: the vectors that hold raw pointers into the output rings and the AEL
        # (horz_seg_list_, horz_join_list_, intersect_nodes_) and the owning outrec_list_ are empty whenever a public method returns -
        # CleanUp frees every OutPt/OutRec, so an entry that survives it dangles and is dereferenced by the next Execute
        for cls in (["ClipperBase", "Clipper64"], ["ClipperBase", "ClipperD"]):
            eng0 = e2.E2(db, chk, cfg, cls)
            PTRS = dict(BASE)
            PTRS["clean"] = {k: 1 for k in ("intersect_nodes_", "horz_seg_list_", "horz_join_list_", "outrec_list_")}
            PTRS["allow"] = dict(BASE["allow"])
            for k in BASE["clean"]:
                if k not in PTRS["clean"]:
                    PTRS["allow"][k] = "holds no pointers (decided under C12)"
            pubs = _public_methods(db, set(cls))
            if len(pubs) < 9:
                raise AnalysisBroken("only %d public methods found for %s" % (len(pubs), cls))
            e2.rule_clean(eng0, chk, cfg, pubs, PTRS, [{}], rule="STALE.pointers")
        # ClipperOffset keeps raw pointers to the caller's result objects (solution, solution_tree): every Execute overload must set
        # both before they are read - a pointer left from an earlier call may point to a destroyed object
        from .c12 import offset_table
        engo = e2.E2(db, chk, cfg, ["ClipperOffset"])
        OFFT, _why = offset_table(db)
        PTR = dict(OFFT)
        PTR["dbu"] = {"solution": 1, "solution_tree": 1}
        PTR["allow"] = dict(OFFT["allow"])
        for k in OFFT["dbu"]:
            if k not in PTR["dbu"]:
                PTR["allow"][k] = "not a pointer (decided under C12)"
        e2.rule_dbu(engo, chk, cfg, db.find("ClipperOffset::Execute"), PTR, [{"deltaCallback64_": False}, {"deltaCallback64_": True}], rule="STALE.pointers")
        # dangling OutPt2 pointers: the lists that point into op_container_ are emptied whenever it is reset
        eng = e2.E2(db, chk, cfg, ["RectClip64", "RectClipLines64"])
        for q in ("RectClip64::Execute", "RectClipLines64::Execute"):
            f = db.one(q)
            e2.rule_clean(eng, chk, cfg, [f], RECT, [{}], rule="STALE.pointers")
            ls = e2.find_loops(f, lambda l: l.get("kind") == "CXXForRangeStmt" and "paths" in e2.loop_header_text(l))
            if len(ls) != 1:
                raise AnalysisBroken("path loop of %s not found" % q)
            e2.rule_loop(eng, chk, cfg, f, ls[0], RECT, [{}], "path loop of " + q, rule="STALE.pointers")
    n = len(cfgs)
    chk.floor("GUARD.nonempty", 55 * n)
    chk.floor("ALLOC.noexcept", 15)
    chk.floor("INT64.product", 150 * n)
    chk.floor("HOT.guard", 40 * n)
    chk.floor("LINK.consistent-at-throw", 60 * n)
    chk.floor("RECURSION", 14 * n)
    chk.floor("DEST.sized", 8 * n)
    chk.floor("GUARD.unsigned-decrement", 3 * n)
    _controls(chk)
    chk.explanation = (
        "Clauses of C10 whose truth is visible in the code are decided for all inputs: non-emptiness guards (this is the rule that found "
        "the empty-path crash in ClipperOffset, since repaired), allocation-failure propagation (nothing allocates under noexcept, nothing "
        "catches), absence of 64-bit coordinate products, validity of the sort comparators, and - for the allocation-failure clause - consistency of the output rings at every "
        "throw point of every function that re-links them (so that the destructor can free them). NOT decided: termination (ProcessIntersectList's "
        "adjacent-node scan), bounds of computed indices, lifetime of Active nodes, disjointness of the rings of different OutRecs, overflow of sums and "
        "differences.")
    chk.assumptions = ["LINK: distinct access paths (op->prev, op, op->next, op->next->next) denote distinct vertices; the entry pts of an OutRec "
                       "that the function does not overwrite is not one of the vertices it orphans",
                       "member scratch containers whose size depends on another container (norms after BuildNormals) are outside GUARD.nonempty's scope",
                       "libstdc++ container operations have the allocation behaviour their IR bodies show"]


def _controls(chk):
    from ..report import Check
    c = Check("C10-control", chk.tier, 0)
    db = AstDB("base", tu=CONTROL)
    e9.rule_nonempty(db, c, "control", lib_only=False)
    e9.rule_int64_product(db, c, "control", lib_only=False)
    e9.rule_alloc_noexcept(Module("base", tu=CONTROL), db, c, "control", min_ctx=1, lib_only=False)
    viol = c.violations
    chk.control("GUARD.nonempty on ControlFirstPoint", any(v["rule"] == "GUARD.nonempty" and "ControlFirstPoint" in v["function"] for v in viol))
    chk.control("INT64.product on ControlCross", any(v["rule"] == "INT64.product" and "ControlCross" in v["function"] for v in viol))
    chk.control("ALLOC.noexcept on ~ControlHolder", any(v["rule"] == "ALLOC.noexcept" and "ControlHolder" in v["function"] for v in viol))
    chk.control("catch handler recognised in ControlSwallow", any(v["key"] == "catch" for v in viol))
    chk.control("nothrow new recognised in ControlNothrow", any(v["key"] == "nothrow-new" for v in viol))
