"""C06 - polygon offsetting moves the boundary by delta.

The property is geometric and is NOT decided.  Decided are only the plumbing clauses that are necessary conditions of
its last sentence ("orientation of the input (and ReverseSolution) is preserved ... |delta| < 0.5 leaves the region
unchanged"): the clean-up union's fill rule / ReverseSolution / output target table, the insignificant-delta shortcut,
the sign of the group delta and the definition of a reversed group; plus the per-group state independence of C12.
"""
from ..astq import AstDB, walk, kids, strip, where
from ..astq import walk
from ..engines import e12_plumbing as e12
from ..engines import e2_state as e2
from ..extract import AnalysisBroken
from .c12 import offset_table

LEVEL = "other"


def run(chk):
    cfgs = ["base", "z"]
    chk.configs = cfgs
    chk.rule("OUTPUT.reset", "every ClipperOffset::Execute overload empties the caller's container before offset paths are appended to it (directly or through the `solution` "
             "pointer): the result is the offset of the input, not united with what the container held")
    chk.rule("OPTIONS.forwarded", "InflatePaths binds each of its options to the ClipperOffset constructor parameter of the same name (miter_limit and arc_tolerance "
             "are both doubles: the compiler cannot tell them apart)")
    chk.rule("EMIT.every-path", "OffsetPolygon, OffsetOpenJoined and OffsetOpenPath append a contour to the solution on every path through them (must-pass "
             "dataflow over the structured CFG, sibling calls resolved by fix-point): no path handed to them is dropped by a shortcut")
    chk.rule("THRESHOLD.bisector", "the length below which NormalizeVector gives up (AlmostZero's epsilon) is not above the shortest bisector sum DoSquare can see, "
             "sqrt(2 - 2C) with C the cosine above which OffsetPoint sends a join to DoMiter - both literals read from the code")
    chk.rule("OFFSET.cleanup", "clean-up union: Union with Negative iff paths reversed else Positive, into the tree iff requested, "
             "ReverseSolution(reverse_solution_ != paths_reversed), PreserveCollinear(preserve_collinear_) - all 16 cells")
    chk.rule("LOOP", "nothing written while offsetting one group is read while offsetting the next (several groups in one ClipperOffset)")
    chk.rule("ZERASE", "the USINGZ copies of the offset code (clipper.offset.cpp: every join / cap helper has an #ifdef USINGZ twin) equal the plain "
             "code after erasing Z-only constructs: the property holds in both builds or in neither")
    chk.rule("GROUP.strip-closed", "Group::Group strips a closing vertex (last == first) exactly for EndType::Polygon and EndType::Joined")
    chk.rule("JOIN.dispatch", "OffsetPoint on convex vertices, every JoinType, either sign of delta, miter limits on both sides of the miter length: Miter -> DoMiter "
             "iff the miter length is within the limit else DoSquare; Round -> DoRound(atan2(sin_a, cos_a)); Bevel -> DoBevel; Square -> DoSquare; arguments (path, j, k)")
    chk.rule("POLY.offset", "join formulas as identities of normal forms: GetUnitNormal is the right-hand unit normal; sin_a / cos_a are cross / dot of the "
             "two normals; DoMiter, DoBevel, DoRound (first point and rotation step), GetPerpendic(D) append the textbook points")
    chk.rule("TARGET.set", "solution, solution_tree and the derived miter threshold temp_lim_ are written by every ClipperOffset::Execute overload before "
             "they are read (output target of this call; MiterLimit() set after construction is honoured)")
    chk.rule("OFFSET.sign", "|delta| < 0.5 copies the inputs; group_delta_ = -delta iff a Polygon group is reversed, |delta| for open paths; "
             "a group is reversed iff its lowest path has negative area")
    from ..engines import e6_siblings as e6
    nz = e6.rule_usingz(AstDB("base"), AstDB("z"), chk, only=lambda fn: (fn.file or "").endswith(("clipper.offset.cpp", "clipper.offset.h")))
    if nz < 20:
        raise AnalysisBroken("ZERASE: only %d functions of clipper.offset.* paired between the plain and the USINGZ build" % nz)
    for cfg in cfgs:
        db = AstDB(cfg)
        e12.offset_cleanup_table(db, chk, cfg)
        e12.offset_sign_rules(db, chk, cfg)
        e12.group_strip_rule(db, chk, cfg)
        from ..engines import e14_poly as e14
        e14.rule_offset(db, chk, cfg)
        e12.join_dispatch_table(db, chk, cfg)
        e12.bisector_threshold_rule(db, chk, cfg)
        e12.emit_every_path_rule(db, chk, cfg)
        e12.inflate_options_rule(db, chk, cfg)
        from ..engines import e10_pipeline as _e10o
        _e10o.rule_outputs_reset(db, chk, cfg, db.find("ClipperOffset::Execute"))
        # the orientation-corrected delta: only the functions that derive group_delta_ read the caller's delta_
        rec = db.record("ClipperOffset")
        fid = [fd["id"] for fd in rec.fields if fd.get("name") == "delta_"]
        gid = [fd["id"] for fd in rec.fields if fd.get("name") == "group_delta_"]
        if not fid or not gid:
            raise AnalysisBroken("ClipperOffset::delta_ / group_delta_ vanished")
        nread = 0
        for f0 in db.funcs:
            if f0.cls != "ClipperOffset" or f0.is_pattern or f0.body is None:
                continue
            writes_g = any(x.get("kind") in ("BinaryOperator", "CompoundAssignOperator") and x.get("opcode", "").endswith("=") and x.get("opcode") not in ("==", "!=", "<=", ">=")
                           and strip(kids(x)[0]).get("kind") == "MemberExpr" and strip(kids(x)[0]).get("referencedMemberDecl") == gid[0] for x in walk(f0.body))
            written = {id(strip(kids(x)[0])) for x in walk(f0.body) if x.get("kind") == "BinaryOperator" and x.get("opcode") == "="}
            for x in walk(f0.body):
                if x.get("kind") == "MemberExpr" and x.get("referencedMemberDecl") == fid[0] and id(x) not in written:
                    nread += 1
                    ok = writes_g
                    chk.instance("OFFSET.sign", {"function": f0.qual, "reads": "delta_", "derives_group_delta_": writes_g, "cfg": cfg}, ok=ok)
                    if not ok:
                        chk.violation("OFFSET.sign", f0.qual, "delta_|read", "%s reads the caller's delta_ although it does not derive group_delta_: the sign of delta_ is not "
                                      "corrected for the orientation of the group (a clockwise outer path is offset with -delta), so a decision based on it is "
                                      "inverted for clockwise input" % f0.qual, where(x), cfg=cfg)
        if nread < 1:
            raise AnalysisBroken("OFFSET.sign: delta_ is never read in ClipperOffset")
        # groups are offset independently of each other (several groups in one ClipperOffset)
        eng = e2.E2(db, chk, cfg, ["ClipperOffset"])
        OFF, why = offset_table(db)
        e2.check_classification(eng, OFF, chk, "ClipperOffset")
        # every Execute overload names its own output target before the work starts (a Paths64 call after a PolyTree64 call on the same
        # object must not send its result to the tree of the earlier call): def-before-use of the two target members only - the other
        # scratch members are decided under C12
        TGT = dict(OFF)
        # (temp_lim_, the miter threshold derived from the MiterLimit option, is in the same position: it must be re-derived by every
        # Execute, otherwise a limit changed through the setter is not honoured)
        TGT["dbu"] = {"solution": 1, "solution_tree": 1, "temp_lim_": 1}
        TGT["allow"] = dict(OFF["allow"])
        for k in OFF["dbu"]:
            if k not in TGT["dbu"]:
                TGT["allow"][k] = "decided under C12"
        execs = db.find("ClipperOffset::Execute")
        e2.rule_dbu(eng, chk, cfg, execs, TGT, [{"deltaCallback64_": False}, {"deltaCallback64_": True}], rule="TARGET.set")
        ei = db.one("ClipperOffset::ExecuteInternal")
        gl = e2.find_loops(ei, lambda l: "groups_" in e2.loop_header_text(l) and any(
            x.get("kind") == "MemberExpr" and x.get("name") == "DoGroupOffset" for x in walk(l)))
        if len(gl) != 1:
            raise AnalysisBroken("group loop of ClipperOffset::ExecuteInternal not found")
        e2.rule_loop(eng, chk, cfg, ei, gl[0], OFF, [{"deltaCallback64_": False}], "group loop of ClipperOffset::ExecuteInternal",
                     extra_allow={"norms": "only handed to a delta callback (reported under C12)"})
    chk.floor("OFFSET.cleanup", 16 * len(cfgs))
    chk.floor("OFFSET.sign", 40 * len(cfgs))
    chk.explanation = (
        "Only the orientation / shortcut plumbing of ClipperOffset is decided (interpreted decision tables over the complete finite domain of "
        "the flags involved). Every distance statement of C06 - round, miter, square and bevel joins, tolerance bands, shrinking beyond the "
        "inradius - is NOT decided.")
