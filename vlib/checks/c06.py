"""C06 - polygon offsetting moves the boundary by delta.

The property is geometric and is NOT decided.  Decided are only the plumbing clauses that are necessary conditions of
its last sentence ("orientation of the input (and ReverseSolution) is preserved ... |delta| < 0.5 leaves the region
unchanged"): the clean-up union's fill rule / ReverseSolution / output target table, the insignificant-delta shortcut,
the sign of the group delta and the definition of a reversed group; plus the per-group state independence of C12.
"""
from ..astq import AstDB
from ..engines import e12_plumbing as e12

LEVEL = "other"


def run(chk):
    cfgs = ["base", "z"]
    chk.configs = cfgs
    chk.rule("OFFSET.cleanup", "clean-up union: Union with Negative iff paths reversed else Positive, into the tree iff requested, "
             "ReverseSolution(reverse_solution_ != paths_reversed), PreserveCollinear(preserve_collinear_) - all 16 cells")
    chk.rule("OFFSET.sign", "|delta| < 0.5 copies the inputs; group_delta_ = -delta iff a Polygon group is reversed, |delta| for open paths; "
             "a group is reversed iff its lowest path has negative area")
    for cfg in cfgs:
        db = AstDB(cfg)
        e12.offset_cleanup_table(db, chk, cfg)
        e12.offset_sign_rules(db, chk, cfg)
    chk.floor("OFFSET.cleanup", 16 * len(cfgs))
    chk.floor("OFFSET.sign", 40 * len(cfgs))
    chk.explanation = (
        "Only the orientation / shortcut plumbing of ClipperOffset is decided (interpreted decision tables over the complete finite domain of "
        "the flags involved). Every distance statement of C06 - round, miter, square and bevel joins, tolerance bands, shrinking beyond the "
        "inradius - is NOT decided.")
