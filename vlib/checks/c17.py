"""C17 - the C export layer marshals faithfully and forwards every parameter.

Decided clauses: (LAYOUT) writer, reader and sizing function of each flat
layout have the same element-count shape, in both vertex dimensionalities, and
the first stored element is the allocated length; (FORWARD) every parameter of
every exported function reaches the native parameter of the same meaning and
no other; (SCALE) the D exports scale every length on the way in and de-scale
on the way out.  Equality of *results* is the native function's business.
"""
from ..astq import AstDB
from ..engines import e4_layout as e4
from ..engines import e8_scale as e8
from ..engines.e5_errors import E5

LEVEL = "other"


def run(chk):
    cfgs = ["base", "z"] if chk.tier == "quick" else ["base", "z", "noexc", "z+noexc"]
    chk.configs = cfgs
    chk.rule("LAYOUT.paths", "CPaths: sizer, writers and readers all have shape 2 + SUM_nonempty paths (2 + DIM*N)")
    chk.rule("LAYOUT.path", "CPath readers consume 2 + DIM*N")
    chk.rule("LAYOUT.count", "the stored path count counts exactly the non-empty paths that the writers emit")
    chk.rule("LAYOUT.polytree", "CPolyPath: writer and sizer have shape 2 + DIM*N + SUM children; the tree writer is sized by the node sizer")
    chk.rule("LAYOUT.header", "the first stored element is the expression passed to new T[...]")
    chk.rule("LAYOUT.cursor", "every call of a writer that shares the array cursor either passes it by reference or stores the returned next position "
             "back into the cursor it passed")
    chk.rule("LAYOUT.z-codec", "USINGZ: every store of pt.z into an array slot is Reinterpret<element type>(pt.z) (or a same-type copy) and every load "
             "of a slot into z is Reinterpret<z_type>(slot) (or a same-type copy): the slot carries Z bit for bit in both directions")
    chk.rule("ROUND", "the export converters (and every scaling helper) hand doubles to Point64's rounding constructor; none converts to int64 with a "
             "bare cast (the native calls round, so truncation would differ by one unit)")
    chk.rule("FORWARD.param", "each exported parameter reaches the native parameter of its meaning (by declaration name), none of another meaning")
    chk.rule("FORWARD.native", "the exported RectClip / RectClipLines / MinkowskiSum / MinkowskiDiff functions use the native operation of their own name "
             "and not its twin (identical signatures: parameter forwarding cannot tell them apart)")
    chk.rule("FORWARD.output", "each output parameter is assigned a marshalled result")
    chk.rule("SCALE.wrapper", "dimensional analysis of the D exports: S^1 at every integer-API length argument, S^0 at the return")
    for cfg in cfgs:
        db = AstDB(cfg)
        e4.rule_layout(db, chk, cfg)
        ex = E5(db, chk, cfg).exported()
        e4.rule_forward(db, chk, cfg, ex)
        e4.rule_native_twin(db, chk, cfg, ex)
        e4.rule_cursor_threaded(db, chk, cfg)
        if "z" in cfg.split("+"):
            nz = e4.rule_z_codec(db, chk, cfg)
            if nz < 8:
                from ..extract import AnalysisBroken
                raise AnalysisBroken("LAYOUT.z-codec: only %d Z-slot accesses recognised in clipper.export.h (configuration %s)" % (nz, cfg))
        e8.rule_wrappers(db, chk, cfg, only=lambda f: f.file.endswith("clipper.export.h"))
        e8.rule_rounding(db, chk, cfg)
    n = len(cfgs)
    chk.floor("LAYOUT.paths", 8 * n)
    chk.floor("LAYOUT.path", 3 * n)
    chk.floor("LAYOUT.count", 2 * n)
    chk.floor("LAYOUT.polytree", 6 * n)
    chk.floor("LAYOUT.header", 5 * n)
    chk.floor("FORWARD.param", 70 * n)
    chk.floor("FORWARD.output", 8 * n)
    chk.floor("SCALE.wrapper", 4 * n)
    chk.explanation = (
        "The element-count shape of every marshalling function is extracted from the AST (cursor advances per loop level, accumulated "
        "length formulas evaluated symbolically in the vertex count) and required to agree between sizing function, writers and readers of "
        "each layout, with EXPORT_VERTEX_DIMENSIONALITY 2 and 3 (USINGZ): a mismatch is at once a round-trip failure and an out-of-bounds "
        "access. Forwarding is decided by tracking, inside each exported function, which exported parameters flow into which native "
        "parameter (resolved through declarations, so constructor positions are judged by the parameter's name). NOT decided: that the "
        "native call returns what it should.")
