"""C18 - geometric predicates are exact and measurements accurate.

Decided clauses (necessary): CrossProductSign, ProductsAreEqual, IsCollinear,
TriSign and Multiply contain no floating-point expression and form 64x64
products only in 128 bits or through Multiply, on both the __int128 and the
portable code path; the portable sign logic (sign x magnitude comparison)
equals the mathematical definition on every consistent cell; Multiply's
partial sums cannot wrap around (interval abstract interpretation).  That
Multiply recombines the partial products correctly, PointInPolygon,
GetSegmentIntersectPt and Area are numeric and NOT decided.
"""
from ..astq import AstDB
from ..engines import e3_tables as e3
from ..engines import e9_safety as e9

LEVEL = "other"


def run(chk):
    cfgs = ["base", "port", "hi"] if chk.tier == "quick" else ["base", "port", "z", "hi", "port+z"]
    chk.configs = cfgs
    chk.rule("PIP.on-edge", "point-in-polygon routines (PointInPolygon, PointInOpPolygon): every cross product that decides a toggle is kept in a local that is tested for "
             "zero with IsOn returned - a point exactly on an edge is never classified by that edge's direction")
    chk.rule("FLOAT.double-only", "no float-typed expression and no single-precision math function in any library function")
    chk.rule("WRAP.container-end", "PointInPolygon: every wrap-around predecessor `prev = E - 1` takes E from polygon.cend() on all reaching definitions "
             "(the local end marker is moved during the cyclic walk)")
    chk.rule("AXIS.mirror", "twin locals for the two axes (bb0minx / bb0miny, originx / originy, ...) read mirrored coordinates; includes the "
             "CLIPPER2_HI_PRECISION variant of GetSegmentIntersectPt")
    chk.rule("CLAMP.endpoint", "GetSegmentIntersectPt executed on exact scenarios where the first segment ends or starts exactly on the second (t == 1, t == 0): ip is that end point in every instantiated variant")
    chk.rule("POLY.intersect", "GetSegmentIntersectPt (both precision variants): as a real-number formula the stored point lies on the lines through both "
             "segments, and 'parallel' is reported iff the cross product of the directions vanishes (identity of polynomial normal forms)")
    chk.rule("POLY.cross", "CrossProductSign / IsCollinear / ProductsAreEqual compare two products whose difference is identically the cross product "
             "(pt2-pt1)x(pt3-pt2); portable path: magnitudes and signs of the same factors; 128-bit tail returns sign(ab-cd) / (ab==cd) on every ordering")
    chk.rule("POLY.measure", "CrossProduct, DotProduct, DistanceSqr, PerpendicDistFromLineSqrd, GetClosestPointOnSegment equal their defining "
             "real-number formulas (identity of polynomial normal forms; rounding not decided)")
    chk.rule("POLY.multiply", "Multiply(a, b): every returned {lo, hi} satisfies hi 2^64 + lo == a b as an identity over the integers (lo_k(x) defined as "
             "x - 2^k hi_k(x), the upper halves uninterpreted): the partial products are recombined correctly wherever nothing wraps")
    chk.rule("POLY.area", "Area(path): every accumulated term is the trapezoid term (prev.y + cur.y)(prev.x - cur.x) of two consecutive vertices in the order the "
             "iterator arithmetic puts them, and the result is half the sum (loops in another style are not judged)")
    chk.rule("P.integer-only", "no expression of floating type in the exact predicates; products are formed in __int128 or in uint64 inside Multiply")
    chk.rule("TYPE.wide-kept", "no 128-bit product is converted to a narrower arithmetic type before it is compared")
    chk.rule("INT64.product", "no product is formed in a signed 64-bit integer type anywhere in the library")
    chk.rule("P.portable-sign", "portable tails: CrossProductSign == sign(sign_ab*|ab| - sign_cd*|cd|) with |.| ordered by (hi, lo); "
             "ProductsAreEqual == (signs equal and magnitudes equal); TriSign == sign")
    chk.rule("P.multiply-no-wrap", "every 64-bit intermediate of Multiply stays below 2^64 for all inputs (interval analysis)")
    for cfg in cfgs:
        db = AstDB(cfg)
        e3.predicates_integer_only(db, chk, cfg)
        e3.multiply_no_wrap(db, chk, cfg)
        e9.rule_int64_product(db, chk, cfg)
        nw = e9.rule_wide_kept(db, chk, cfg)
        if "port" not in cfg.split("+") and nw < 4:
            from ..extract import AnalysisBroken
            raise AnalysisBroken("TYPE.wide-kept: only %d conversions of 128-bit values found in configuration %s" % (nw, cfg))
        e3.pip_wrap_rule(db, chk, cfg)
        e3.pip_on_edge_sites(db, chk, cfg)
        e3.no_single_precision(db, chk, cfg)
        from ..engines import e14_poly as e14
        e14.rule_intersect(db, chk, cfg)
        if "hi" not in cfg:      # the high-precision variant has no clamp (and its `if constexpr` is not interpreted)
            e14.rule_clamp_endpoint(db, chk, cfg)
        e14.rule_cross(db, chk, cfg)
        e14.rule_measure(db, chk, cfg)
        e14.rule_multiply(db, chk, cfg)
        e14.rule_area_terms(db, chk, cfg)
        nax = e3.axis_mirror_rule(db, chk, cfg)
        if nax < (10 if "hi" in cfg.split("+") else 4):
            from ..extract import AnalysisBroken
            raise AnalysisBroken("AXIS.mirror: only %d x/y twin declarations found in configuration %s" % (nax, cfg))
        if "port" in cfg.split("+"):
            e3.portable_sign_logic(db, chk, cfg)
    chk.floor("P.integer-only", 5 * len(cfgs))
    chk.floor("P.multiply-no-wrap", 10 * len(cfgs))
    chk.floor("P.portable-sign", 450)
    chk.explanation = (
        "The portable 64x64 branch is never compiled by GCC/Clang on 64-bit targets; it is forced into the analysed configuration 'port' "
        "by /verif/driver/force_portable.h so that it is type-checked and analysed. The sign logic touches its inputs only through "
        "comparisons, so it is decided exhaustively over sign in {-1,0,1} x orderings of (hi, lo) of both magnitudes (consistent cells only: "
        "sign 0 <=> magnitude 0). Multiply's no-wrap clause is an interval proof over its AST. NOT decided: the numeric functions.")
