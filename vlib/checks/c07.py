"""C07 - open-path offsetting: stroke of the requested width and caps.

Decided clauses (necessary conditions): (i) nothing written while offsetting one
path of a group is read while offsetting the next (LOOP rule of E2 on the path
loop of DoGroupOffset and the group loop of ExecuteInternal) - needed for "does
not depend on which other paths are offset in the same call"; (ii) wherever the
end type is not Polygon, delta is only ever read through abs() - needed for
"+delta and -delta give identical results"; (iii) the start-cap and end-cap
dispatch tables on the end type are the ones the property names and are equal at
both ends.  Stroke geometry, cap extents and circles for points are NOT decided.
"""
from ..astq import AstDB, walk, kids, strip, canon, where, if_parts, qt
from ..engines import e2_state as e2
from ..evalx import Interp, Unsupported
from ..extract import AnalysisBroken
from .c12 import OFFSET, offset_table
from ..engines import e12_plumbing as e12

LEVEL = "other"

CAP_ORACLE = {"Butt": "DoBevel", "Round": "DoRound", "Square": "DoSquare", "Joined": "DoSquare", "Polygon": "DoSquare"}


def _cap_tables(db, chk, cfg):
    """Start and end cap of OffsetOpenPath.  Every top-level statement of the function that (transitively) contains a call of
    DoBevel / DoRound / DoSquare is a cap dispatch; there are two, the first for the start of the path and the second for its end.
    Each is interpreted for every EndType (switch or if-chain alike) with a delta that is not negligible and no delta callback; the
    index arguments are evaluated with path.size() == 10 (start: 0, end: 9)."""
    f = db.one("ClipperOffset::OffsetOpenPath")
    CAPS = ("DoBevel", "DoRound", "DoSquare", "DoMiter")
    top = [x for x in kids(f.body) if isinstance(x, dict) and x.get("kind")]
    disp = [x for x in top if any(y.get("kind") in ("CXXMemberCallExpr", "CallExpr") and db.callee(y)[0] in CAPS for y in walk(x))]
    if len(disp) != 2:
        raise AnalysisBroken("expected 2 cap dispatches (top-level statements calling DoBevel/DoRound/DoSquare) in OffsetOpenPath, found %d" % len(disp))
    ends = db.enum("EndType")
    pname = f.params[1]["name"] if len(f.params) > 1 else "path"
    tables = []
    for which, s in zip(("start", "end"), disp):
        tbl = {}
        for i, en in enumerate(ends):
            calls = []

            def hook(name, argv, nd):
                if name in CAPS:
                    a = db.call_args(nd)
                    vals = []
                    for z in a[1:]:
                        try:
                            vals.append(it.ev(z))
                        except Unsupported:
                            vals.append(canon(z))
                    calls.append((name, tuple(vals)))
                    return None
                if name == "size" and nd.get("kind") == "CXXMemberCallExpr" and canon(db.member_base(nd)) == pname:
                    return 10
                if name in ("fabs", "abs"):
                    return 5.0
                if name in ("emplace_back", "push_back", "OffsetPoint"):
                    return None
                return NotImplemented
            # the effective end type is the member end_type_: DoGroupOffset overrides it per path (a two-point Joined path is capped Round
            # or Square) while the group keeps what the caller asked for - so the group's own field is bound to Joined here
            env0 = {"end_type_": i, "deltaCallback64_": False, "group_delta_": 5.0, "floating_point_tolerance": 1e-12, "PI": 3.141592653589793}
            if f.params and "Group" in (qt(f.params[0]) or ""):
                env0["%s.end_type" % f.params[0]["name"]] = ends.index("Joined")
            it = Interp(db, env0, call_hook=hook)
            try:
                # local index variables declared before the dispatch (e.g. highI = path.size() - 1)
                for t0 in top:
                    if t0 is s:
                        break
                    if t0.get("kind") == "DeclStmt":
                        for d in kids(t0):
                            init = [c for c in kids(d) if isinstance(c, dict) and c.get("kind")]
                            if d.get("kind") == "VarDecl" and init:
                                try:
                                    it.env[d["name"]] = it.ev(init[-1])
                                except Unsupported:
                                    pass
                it.exec(s)
            except Unsupported as e:
                raise AnalysisBroken("cannot interpret the %s-cap dispatch of OffsetOpenPath: %s" % (which, e))
            tbl[en] = calls
        tables.append(tbl)
    bad = []
    for which, tbl in zip(("start", "end"), tables):
        idx = 0 if which == "start" else 9
        for en in ends:
            calls = tbl[en]
            want = CAP_ORACLE.get(en)
            if en in ("Joined", "Polygon"):
                # never reach OffsetOpenPath with these end types (DoGroupOffset dispatches them elsewhere): table cell unreachable
                chk.instance("CAP.table", None)
                continue
            ok = len(calls) == 1 and calls[0][0] == want and tuple(calls[0][1][0:2]) == (idx, idx) and \
                (want != "DoRound" or (len(calls[0][1]) > 2 and isinstance(calls[0][1][2], float) and abs(calls[0][1][2] - 3.141592653589793) < 1e-9))
            chk.instance("CAP.table", {"cap": which, "end_type": en, "calls": [c[0] + str(c[1]) for c in calls], "cfg": cfg}, ok=ok)
            if not ok:
                bad.append((which, en, calls))
    for which, en, calls in bad[:2]:
        chk.violation("CAP.table", f.qual, "%s/%s" % (which, en),
                      "%s cap for EndType::%s dispatches to %s; the property requires %s(path, i, i%s) with i the %s index"
                      % (which, en, calls, CAP_ORACLE[en], ", PI" if CAP_ORACLE[en] == "DoRound" else "", "first" if which == "start" else "last"),
                      f.where, cfg=cfg)
    # both ends must agree up to the index
    for en in ends:
        a = [(c[0], tuple(0 if x == 9 else x for x in c[1])) for c in tables[1][en]]
        if a != tables[0][en] and en not in ("Joined", "Polygon"):
            chk.violation("CAP.symmetry", f.qual, en, "start cap %s and end cap %s differ for EndType::%s" % (tables[0][en], tables[1][en], en),
                          f.where, cfg=cfg)


def _delta_symmetry(db, chk, cfg):
    """Every read of delta_ (and of ExecuteInternal's `delta`) outside the Polygon branch is an argument of abs()."""
    rec = db.record("ClipperOffset")
    fid = [fd["id"] for fd in rec.fields if fd.get("name") == "delta_"]
    if not fid:
        raise AnalysisBroken("ClipperOffset::delta_ vanished")
    fid = fid[0]
    n = 0
    for f in db.funcs:
        if f.cls != "ClipperOffset" or f.is_pattern:
            continue
        par = {}
        for x in walk(f.body):
            for c in kids(x):
                if isinstance(c, dict):
                    par[id(c)] = x
        targets = [x for x in walk(f.body) if x.get("kind") == "MemberExpr" and x.get("referencedMemberDecl") == fid]
        if f.name == "ExecuteInternal" and f.params:
            pid = f.params[0]["id"]
            targets += [x for x in walk(f.body) if x.get("kind") == "DeclRefExpr" and x.get("referencedDecl", {}).get("id") == pid]
        for t in targets:
            p = par.get(id(t))
            while p is not None and p.get("kind") in ("ImplicitCastExpr", "ParenExpr"):
                t2, p = p, par.get(id(p))
            # write?
            if p is not None and p.get("kind") == "BinaryOperator" and p.get("opcode") == "=" and strip(kids(p)[0]) is t:
                continue
            n += 1
            ok = False
            why = "plain read"
            if p is not None and p.get("kind") == "CallExpr" and db.callee(p)[0] in ("abs", "fabs"):
                ok, why = True, "argument of abs()"
            elif p is not None and p.get("kind") == "BinaryOperator" and p.get("opcode") == "=" and \
                    canon(kids(p)[0]) == "delta_" and f.name == "ExecuteInternal":
                ok, why = True, "stored into delta_"
            else:
                # inside the Polygon branch of `if (group.end_type == EndType::Polygon)`
                q = t
                while id(q) in par:
                    pp = par[id(q)]
                    if pp.get("kind") == "IfStmt":
                        cond, then, els = if_parts(pp)
                        cs = canon(cond)
                        if "end_type" in cs and "Polygon" in cs and "==" in cs and _contains(then, q):
                            ok, why = True, "inside the EndType::Polygon branch"
                            break
                    q = pp
            chk.instance("DELTA.abs-only", {"function": f.qual, "where": where(t), "context": why, "cfg": cfg}, ok=ok)
            if not ok:
                chk.violation("DELTA.abs-only", f.qual, "delta@" + canon(p)[:40] if p else "delta",
                              "delta is read here without abs() on a path that open-path (non-Polygon) offsetting can take: "
                              "+delta and -delta can give different results", where(t), cfg=cfg)
    return n


def _contains(root, node):
    for x in walk(root):
        if x is node:
            return True
    return False


def run(chk):
    cfgs = ["base", "z"]
    chk.configs = cfgs
    chk.rule("OPTIONS.forwarded", "InflatePaths binds each of its options to the ClipperOffset constructor parameter of the same name (miter_limit and arc_tolerance "
             "are both doubles: the compiler cannot tell them apart)")
    chk.rule("EMIT.every-path", "OffsetPolygon, OffsetOpenJoined and OffsetOpenPath append a contour to the solution on every path through them (must-pass "
             "dataflow over the structured CFG, sibling calls resolved by fix-point): no path handed to them is dropped by a shortcut")
    chk.rule("THRESHOLD.bisector", "the length below which NormalizeVector gives up (AlmostZero's epsilon) is not above the shortest bisector sum DoSquare can see, "
             "sqrt(2 - 2C) with C the cosine above which OffsetPoint sends a join to DoMiter - both literals read from the code")
    chk.rule("LOOP", "no member or outer local is written while offsetting one path/group and read while offsetting the next before re-initialisation")
    chk.rule("DELTA.abs-only", "outside the EndType::Polygon branch, delta is only read as abs(delta)")
    chk.rule("ZERASE", "the USINGZ copies of the offset code equal the plain code after erasing Z-only constructs")
    chk.rule("GROUP.strip-closed", "Group::Group strips a closing vertex (last == first) exactly for EndType::Polygon and EndType::Joined - for "
             "Butt / Square / Round ends it is the end point of the last segment")
    chk.rule("LIMIT.rederived", "the miter threshold temp_lim_ (derived from MiterLimit) is written by every ClipperOffset::Execute overload before "
             "a join reads it: the join factor of this call is the one of the limit in force now")
    chk.rule("JOIN.dispatch", "OffsetPoint on convex vertices, every JoinType, either sign of delta, miter limits on both sides of the miter length: Miter -> DoMiter "
             "iff the miter length is within the limit else DoSquare; Round -> DoRound(atan2(sin_a, cos_a)); Bevel -> DoBevel; Square -> DoSquare; arguments (path, j, k)")
    chk.rule("POLY.offset", "join formulas as identities of normal forms: GetUnitNormal is the right-hand unit normal; sin_a / cos_a are cross / dot of the "
             "two normals; DoMiter, DoBevel, DoRound (first point and rotation step), GetPerpendic(D) append the textbook points")
    chk.rule("CAP.table", "start and end cap: Butt->DoBevel(i,i), Round->DoRound(i,i,PI), Square->DoSquare(i,i)")
    worlds = [{"deltaCallback64_": False}, {"deltaCallback64_": True}]
    from ..engines import e6_siblings as e6
    nz = e6.rule_usingz(AstDB("base"), AstDB("z"), chk, only=lambda fn: (fn.file or "").endswith(("clipper.offset.cpp", "clipper.offset.h")))
    if nz < 20:
        raise AnalysisBroken("ZERASE: only %d functions of clipper.offset.* paired between the plain and the USINGZ build" % nz)
    for cfg in cfgs:
        db = AstDB(cfg)
        eng = e2.E2(db, chk, cfg, ["ClipperOffset"])
        OFF, why = offset_table(db)
        e2.check_classification(eng, OFF, chk, "ClipperOffset")
        dg = db.one("ClipperOffset::DoGroupOffset")
        pl = e2.find_loops(dg, lambda l: "paths_in" in e2.loop_header_text(l))
        if len(pl) != 1:
            raise AnalysisBroken("path loop of DoGroupOffset not found")
        # the stale normals handed to a delta callback (D12) do not enter the geometry unless the callback uses them: C12 only
        e2.rule_loop(eng, chk, cfg, dg, pl[0], OFF, worlds, "path loop of ClipperOffset::DoGroupOffset",
                     extra_allow={"norms": "only passed to the user's delta callback (reported under C12); the library's own geometry "
                                           "reads norms after BuildNormals"})
        ei = db.one("ClipperOffset::ExecuteInternal")
        gl = e2.find_loops(ei, lambda l: "groups_" in e2.loop_header_text(l) and any(
            x.get("kind") == "MemberExpr" and x.get("name") == "DoGroupOffset" for x in walk(l)))
        if len(gl) != 1:
            raise AnalysisBroken("group loop of ExecuteInternal not found")
        e2.rule_loop(eng, chk, cfg, ei, gl[0], OFF, worlds, "group loop of ClipperOffset::ExecuteInternal",
                     extra_allow={"norms": "only passed to the user's delta callback (reported under C12)"})
        # the join/cap factor bound ("nothing lies farther than |delta| times the join factor"): the miter threshold derived from the
        # MiterLimit option is re-derived by every Execute before any join reads it, so a limit set through the setter is honoured
        LIM = dict(OFF)
        LIM["dbu"] = {"temp_lim_": 1}
        LIM["allow"] = dict(OFF["allow"])
        for k in OFF["dbu"]:
            if k not in LIM["dbu"]:
                LIM["allow"][k] = "decided under C12"
        e2.rule_dbu(eng, chk, cfg, db.find("ClipperOffset::Execute"), LIM, worlds, rule="LIMIT.rederived")
        _delta_symmetry(db, chk, cfg)
        _cap_tables(db, chk, cfg)
        e12.group_strip_rule(db, chk, cfg)
        from ..engines import e14_poly as e14
        e14.rule_offset(db, chk, cfg)
        e12.join_dispatch_table(db, chk, cfg)
        e12.bisector_threshold_rule(db, chk, cfg)
        e12.emit_every_path_rule(db, chk, cfg)
        e12.inflate_options_rule(db, chk, cfg)
    chk.floor("LOOP", 2 * len(cfgs))
    chk.floor("DELTA.abs-only", 4 * len(cfgs))
    chk.floor("CAP.table", 6 * len(cfgs))
    chk.explanation = (
        "Three structural necessary conditions of C07 decided from the AST: per-path state independence inside one Execute (E2 loop rule, "
        "with and without a delta callback), +-delta symmetry by construction (delta only read through abs() outside the Polygon branch), and "
        "the cap dispatch tables extracted by interpreting both switch statements for every EndType. NOT decided: the stroke geometry itself.")
