"""C11 - execution succeeds on valid input; invalid arguments are reported.

Decided clauses: validate-before-use of every precision parameter on every
public path (R1), exact validators (R7), range test before every double->int64
scaling of caller data (R4), C-boundary rejection sets (R5), NoClip returns
before anything can create output (R6); in builds without exceptions also:
error codes are consumed before a result is produced (R2) and every DoError is
paired with an error-code update (R3).  Not decided: that Execute returns true
for all geometry.
"""
from ..astq import AstDB
from ..irdb import Module
from ..engines.e5_errors import E5
from ..engines import e2_state as e2
from ..extract import AnalysisBroken

LEVEL = "other"


def _error_code_sticky(db, chk, cfg, rule="ERRCODE.sticky"):
    """A class whose *constructor* records an error in the member error_code_ (ClipperD: the precision, which cannot be changed
    afterwards) must keep it for the life of the object: in a build without exceptions ErrorCode() is the only report of the rejected
    argument.  So outside constructors the member is only ever or-ed into (`|=`, directly or through the reference handed to
    CheckPrecisionRange / ScalePaths); a plain assignment in Clear(), Reset() or Execute() wipes the constructor's report."""
    from ..astq import walk, kids, canon, where
    def _u(x):
        while x.get("kind") in ("ImplicitCastExpr", "ParenExpr") and kids(x):
            x = kids(x)[0]
        return x
    owners = {q.split("::")[-1] for q, r in db.records.items() if any(fd.get("name") == "error_code_" for fd in r.fields)}
    recorded = set()          # classes with a constructor that writes the member
    for f in db.funcs:
        if f.kind == "CXXConstructorDecl" and f.body is not None and not f.is_pattern:
            if any(x.get("kind") == "MemberExpr" and x.get("name") == "error_code_" for x in walk(f.body)):
                recorded.add(f.cls)
    hier = set()
    for c in recorded:
        r = db.records.get(c)
        bases = [b.split("::")[-1] for b in (r.bases if r else [])]
        hier |= {c} | {b for b in bases if b in owners}
    if not recorded:
        # no constructor reports through the member (any more): whether the constructor still validates its argument is R1's question,
        # and there is no constructor-time report that a later write could wipe
        chk.instance(rule, {"classes": [], "constructor_records_error": [], "note": "no constructor writes error_code_", "cfg": cfg})
        return 0
    n = 0
    for f in db.funcs:
        if f.is_pattern or f.body is None or f.cls not in hier or f.kind in ("CXXConstructorDecl", "CXXDestructorDecl"):
            continue
        for x in walk(f.body):
            if x.get("kind") in ("BinaryOperator", "CompoundAssignOperator") and str(x.get("opcode", "")).endswith("=") \
                    and x.get("opcode") not in ("==", "!=", "<=", ">="):
                lhs = _u(kids(x)[0])
                if lhs.get("kind") == "MemberExpr" and lhs.get("name") == "error_code_":
                    n += 1
                    ok = x.get("opcode") == "|="
                    chk.instance(rule, {"function": f.qual, "write": canon(x)[:60], "cfg": cfg}, ok=ok)
                    if not ok:
                        chk.violation(rule, f.qual, "error_code_",
                                      "`%s` in %s overwrites error_code_, which the constructor of %s uses to record a rejected argument (a decimal "
                                      "precision outside +-8): after this call ErrorCode() no longer reports it, and in a build without exceptions "
                                      "nothing else does - the invalid argument is silently accepted" % (canon(x)[:60], f.qual, ", ".join(sorted(recorded))),
                                      where(x), cfg=cfg)
    chk.instance(rule, {"classes": sorted(hier), "constructor_records_error": sorted(recorded), "direct_writes_outside_constructors": n, "cfg": cfg})
    return len(hier)


def _success_flag(db, chk, cfg):
    """Execute's return value succeeded_ is re-armed (written) in every Execute before it is read, whatever happened to the
    object before (AddReuseableData sets it to false); the only `false` stored during execution is AddLocalMaxPoly's."""
    from ..astq import walk, kids, canon
    for cls in (["ClipperBase", "Clipper64"], ["ClipperBase", "ClipperD"]):
        eng = e2.E2(db, chk, cfg, cls)
        execs = db.find(cls[-1] + "::Execute")
        if len(execs) != 4:
            raise AnalysisBroken("expected 4 Execute overloads in %s" % cls[-1])
        for f in execs:
            s = eng.summary(f, {}, {}, True)
            ok = "succeeded_" not in s.ubd
            chk.instance("SUCCESS.re-armed", {"function": f.qual, "sig": f.sig[:60], "cfg": cfg}, ok=ok)
            if not ok:
                chk.violation("SUCCESS.re-armed", f.qual, "succeeded_", "Execute can read succeeded_ before this execution has written it: a value "
                              "left by an earlier call (AddReuseableData stores false) makes a valid operation report failure", f.where, cfg=cfg)
    r = db.one("ClipperBase::Reset")
    ok = "(succeeded_ = true)" in canon(r.body)
    chk.instance("SUCCESS.re-armed", {"function": r.qual, "stores": "succeeded_ = true", "cfg": cfg}, ok=ok)
    if not ok:
        chk.violation("SUCCESS.re-armed", r.qual, "true", "Reset() no longer stores succeeded_ = true", r.where, cfg=cfg)


def run(chk):
    cfgs = ["base", "z", "noexc"] if chk.tier == "quick" else ["base", "z", "noexc", "z+noexc", "hi"]
    chk.configs = cfgs
    chk.rule("R1.validate-before-use", "every use of a precision parameter is dominated by CheckPrecisionRange / an explicit two-sided "
             "range test, or forwards it to a callee that validates it (checked recursively)")
    chk.rule("R2.error-consumed", "[builds without exceptions] after a call that may set a local error code, no non-empty value is "
             "returned before `if (error_code) return <empty>`")
    chk.rule("R2.member-error-consumed", "[builds without exceptions] ClipperD::Execute consults error_code_ before producing output")
    chk.rule("ERRCODE.sticky", "a class whose constructor records a rejected argument in error_code_ (ClipperD: the precision) never overwrites the member afterwards: outside constructors it is only or-ed into, so ErrorCode() still reports the argument after Clear / Reset / Execute")
    chk.rule("R3.doerror-paired", "[builds without exceptions] every DoError(c) is directly preceded by `<code> |= c`")
    chk.rule("R4.range-checked-scaling", "every call of a primitive that scales caller-supplied doubles into int64 geometry is covered "
             "by a comparison against min_coord/max_coord")
    chk.rule("R5.c-boundary", "each exported function rejects exactly the out-of-range cliptype / fillrule / precision values before "
             "first use (rejection condition evaluated over the whole value domain) with a negative / null result")
    chk.rule("OUTPUT.reset", "every Clipper64 / ClipperD Execute overload empties the result containers it is given on every path, so ClipType::NoClip (and a failed "
             "execution) yields empty solutions whatever the containers held")
    chk.rule("R6.noclip", "ExecuteInternal returns on ClipType::NoClip before calling anything that can reach NewOutRec")
    chk.rule("SUCCESS.re-armed", "every Execute writes succeeded_ (= true, in Reset) before reading it")
    chk.rule("BOUNDS.minmax", "every GetBounds overload (whose result feeds the range check of ScalePaths) updates min and max with every vertex, "
             "including the first one in the sentinel state (innermost loop body interpreted on 4 situations x 2 coordinates)")
    chk.rule("R7.validator-table", "CheckPrecisionRange accepts exactly [-MAX, MAX], otherwise sets the code, calls DoError and clamps")
    chk.rule("R7.zero-scale", "ScalePath reports a zero scale")
    chk.rule("R8.odd-count", "MakePath / MakePathD from a std::vector report an odd number of coordinates (DoError(non_pair_error_i)) exactly when the count is odd, "
             "and hand on its even part (interpreted for 0..7 values)")
    chk.rule("R7.range-table", "ScalePaths<int64_t> rejects exactly the bounds that leave [min_coord, max_coord]")
    for cfg in cfgs:
        db = AstDB(cfg)
        e = E5(db, chk, cfg)
        e.rule_r1()
        e.rule_r4()
        e.rule_r5()
        e.rule_r6(Module(cfg))
        e.rule_r7()
        if e.rule_odd_count() < 8:
            raise AnalysisBroken("R8.odd-count: no MakePath / MakePathD overload taking a std::vector is instantiated (configuration %s)" % cfg)
        from ..engines import e3_tables as e3
        e3.bounds_update_table(db, chk, cfg)
        if not e.doerror_throws:
            e.rule_r2()
            chk.extra.setdefault("error_swallowing_functions", {})[cfg] = e.swallowers
            e.rule_r3()
        chk.extra.setdefault("DoError_throws", {})[cfg] = e.doerror_throws
        # an operation that does nothing (NoClip) or fails hands back *empty* results: every Execute overload empties the containers it was given
        from ..engines import e10_pipeline as _e10r
        _outs = db.find("Clipper64::Execute") + db.find("ClipperD::Execute")
        if _e10r.rule_outputs_reset(db, chk, cfg, _outs) < 8:
            from ..extract import AnalysisBroken as _AB
            raise _AB("OUTPUT.reset: fewer than 8 output parameters on the Execute overloads (%s)" % cfg)
        _success_flag(db, chk, cfg)
        _error_code_sticky(db, chk, cfg)
    n = len(cfgs)
    chk.floor("R1.validate-before-use", 22 * n)
    chk.floor("R4.range-checked-scaling", 10 * n)
    chk.floor("R5.c-boundary", 14 * n)
    chk.floor("R6.noclip", n)
    chk.floor("R7.validator-table", 20 * n)
    chk.floor("R7.zero-scale", 2 * n)
    chk.floor("R7.range-table", n)
    chk.floor("R3.doerror-paired", 3)
    chk.floor("R2.error-consumed", 6)
    chk.explanation = (
        "Engler-style error-discipline rules instantiated for this repository's three error channels (exception via DoError, int& "
        "error_code, negative/null return at the C boundary), decided on the structured CFG of clang's AST in builds with and without "
        "exceptions. DoError is modelled from its own body: where every case throws, code after it is unreachable and R2/R3 are vacuous; "
        "they carry weight in the -fno-exceptions configuration. Validation conditions are evaluated over the complete value domain "
        "(uint8_t: 0..255; precision: a partition around +-MAX) by the AST interpreter. NOT decided: that Execute succeeds for all geometry.")
    chk.assumptions = ["a parameter named precision/decimal_prec/decimalPlaces of type int is a decimal precision",
                       "CheckPrecisionRange is the validator (its own table is rule R7)"]
