"""Queries over the slimmed clang AST (see extract.py).

The AST is a list of JSON dictionaries (clang's -ast-dump=json); this module
adds the indexes the engines need: declarations by id, functions with their
qualified names and bodies, records with their fields, enums, and helpers to
resolve callees, strip implicit nodes, and print expressions canonically.
"""
import os
from .extract import AnalysisBroken, ast as _load_ast

FUNC_KINDS = ("FunctionDecl", "CXXMethodDecl", "CXXConstructorDecl", "CXXDestructorDecl", "CXXConversionDecl")
TRANSPARENT = ("ImplicitCastExpr", "ParenExpr", "ExprWithCleanups", "MaterializeTemporaryExpr",
               "CXXBindTemporaryExpr", "ConstantExpr", "FullExpr")


def kids(n):
    return n.get("inner", []) if isinstance(n, dict) else []


def strip(n):
    """Skip nodes that have no semantic effect for our rules."""
    while isinstance(n, dict):
        k = n.get("kind")
        if k in TRANSPARENT:
            ks = kids(n)
            if not ks:
                return n
            n = ks[0]
        elif k == "CXXFunctionalCastExpr" and n.get("castKind") in ("NoOp", "ConstructorConversion"):
            n = kids(n)[0]
        elif k == "CXXConstructExpr" and n.get("elidable") and len(kids(n)) == 1:
            n = kids(n)[0]
        else:
            return n
    return n


def walk(n):
    """Pre-order traversal of every dict node below (and including) n."""
    stack = [n]
    while stack:
        x = stack.pop()
        if isinstance(x, dict):
            yield x
            ks = x.get("inner")
            if ks:
                stack.extend(reversed(ks))


def qt(n):
    t = n.get("type") or {}
    return t.get("qualType", "")


def dqt(n):
    t = n.get("type") or {}
    return t.get("desugaredQualType", t.get("qualType", ""))


def short_file(f):
    from .extract import REPO
    if f and f.startswith(REPO + "/"):
        return os.path.relpath(f, REPO)
    return f or "?"


def where(n):
    return "%s:%s" % (short_file(n.get("file")), n.get("line") or n.get("l0"))


class Func:
    __slots__ = ("node", "name", "qual", "cls", "params", "body", "is_pattern", "is_inst", "tmpl",
                 "file", "line", "mangled", "kind", "id", "inits")

    def __repr__(self):
        return "<Func %s @%s:%s>" % (self.qual, short_file(self.file), self.line)

    @property
    def sig(self):
        return qt(self.node)

    @property
    def where(self):
        return "%s:%s" % (short_file(self.file), self.line)


class Record:
    __slots__ = ("node", "name", "qual", "fields", "bases", "methods", "id")


class AstDB:
    def __init__(self, cfg, tu=None):
        self.cfg = cfg
        self.tu = tu
        self.tops = _load_ast(cfg, tu)
        self.by_id = {}
        self.funcs = []          # every function-like decl with a body
        self.all_func_decls = {}  # id -> Func (with or without body)
        self.records = {}        # qual -> Record
        self.record_by_id = {}
        self.enums = {}          # name -> [enumerator names]
        self.globals = []        # VarDecl nodes with static storage
        self._def_of = {}        # decl id -> defining Func (via previousDecl chains)
        for t in self.tops:
            self._index(t, ["Clipper2Lib"], None, False)
        self._link_defs()
        self.renamed = []
        if not os.environ.get("VERIF_NO_RENAME"):
            self._normalise_names()
        self.inlined_helpers = []
        if not os.environ.get("VERIF_NO_INLINE"):
            for _ in range(2):                 # helpers calling helpers: two rounds
                self._inline_new_helpers()

        self.split_locals = []
        if not os.environ.get("VERIF_NO_SPLIT"):
            self._split_const_bool_locals()

    # -- case split on const bool locals ---------------------------------------
    def _split_const_bool_locals(self):
        """`const bool v = E; REST` with a side-effect-free E, where v is handed to a call as an argument, is rewritten into
        `if (E) REST[v := true] else REST[v := false]` (conditions on the literal folded away).  The two programs are equivalent -
        E is evaluated once, at the same point - and the second is the shape the rules were written for: a call whose flag
        argument is a literal in each branch.  (Merging two branches that differ in one flag into a single call with a computed
        flag is a common tidy-up.)"""
        import copy

        def lit(v, like):
            return {"kind": "CXXBoolLiteralExpr", "type": {"qualType": "bool"}, "valueCategory": "prvalue", "value": v,
                    "file": like.get("file"), "line": like.get("line"), "l0": like.get("l0"), "l1": like.get("l1")}

        def subst(node, vid, v):
            if isinstance(node, list):
                return [subst(x, vid, v) for x in node]
            if not isinstance(node, dict):
                return node
            if node.get("kind") == "DeclRefExpr" and node.get("referencedDecl", {}).get("id") == vid:
                return lit(v, node)
            if node.get("kind") == "ImplicitCastExpr" and node.get("castKind") == "LValueToRValue" and kids(node) and \
                    kids(node)[0].get("kind") == "DeclRefExpr" and kids(node)[0].get("referencedDecl", {}).get("id") == vid:
                return lit(v, node)
            out = {}
            for k, x in node.items():
                out[k] = subst(x, vid, v) if k == "inner" else x
            return out

        def litval(e):
            e = strip(e)
            if e.get("kind") == "CXXBoolLiteralExpr":
                return bool(e.get("value"))
            return None

        def fold(node):
            if isinstance(node, list):
                return [fold(x) for x in node]
            if not isinstance(node, dict) or "inner" not in node:
                return node
            node = dict(node)
            node["inner"] = [fold(x) for x in node["inner"]]
            k = node.get("kind")
            if k == "UnaryOperator" and node.get("opcode") == "!":
                v = litval(node["inner"][0])
                if v is not None:
                    return lit(not v, node)
            if k == "BinaryOperator" and node.get("opcode") in ("&&", "||"):
                l, r = node["inner"]
                lv = litval(l)
                if lv is not None:
                    if node["opcode"] == "&&":
                        return r if lv else lit(False, node)
                    return lit(True, node) if lv else r
                rv = litval(r)
                if rv is not None and ((node["opcode"] == "&&" and rv) or (node["opcode"] == "||" and not rv)):
                    return l
            if k == "ConditionalOperator":
                v = litval(node["inner"][0])
                if v is not None:
                    return node["inner"][1] if v else node["inner"][2]
            if k == "IfStmt" and not node.get("hasInit") and not node.get("hasVar") and not node.get("isConstexpr"):
                cond, then, els = _if_parts(node)
                v = litval(cond)
                if v is not None:
                    if v:
                        return then
                    return els if els is not None else {"kind": "NullStmt", "file": node.get("file"), "line": node.get("line")}
            return node

        def split_block(block, fq):
            if not isinstance(block, dict):
                return
            if block.get("kind") == "CompoundStmt":
                st = block.get("inner", [])
                for i, s0 in enumerate(st):
                    if not (isinstance(s0, dict) and s0.get("kind") == "DeclStmt" and len(kids(s0)) == 1):
                        continue
                    d = kids(s0)[0]
                    if d.get("kind") != "VarDecl" or (qt(d) or "").strip() != "const bool":
                        continue
                    init = [c for c in kids(d) if isinstance(c, dict) and c.get("kind")]
                    if not init or not self._pure(init[-1]):
                        continue
                    vid = d.get("id")
                    rest = st[i + 1:]
                    as_arg = any(y.get("kind") in ("CallExpr", "CXXMemberCallExpr") and
                                 any(strip(a).get("kind") == "DeclRefExpr" and strip(a).get("referencedDecl", {}).get("id") == vid for a in self.call_args(y))
                                 for r in rest for y in walk(r))
                    if not as_arg:
                        continue
                    mk = lambda v: {"kind": "CompoundStmt", "file": s0.get("file"), "line": s0.get("line"), "l0": s0.get("l0"), "l1": block.get("l1"),
                                    "inner": [x for x in (fold(subst(copy.deepcopy(r), vid, v)) for r in rest) if not (isinstance(x, dict) and x.get("kind") == "NullStmt")]}
                    ifs = {"kind": "IfStmt", "hasElse": True, "file": s0.get("file"), "line": s0.get("line"), "l0": s0.get("l0"), "l1": block.get("l1"),
                           "inner": [copy.deepcopy(init[-1]), mk(True), mk(False)]}
                    block["inner"] = st[:i] + [ifs]
                    self.split_locals.append("%s: %s" % (fq, d.get("name")))
                    break
            for c in kids(block):
                split_block(c, fq)

        for f in self.funcs:
            fl = f.file or ""
            if f.body is None or not ("Clipper2Lib" in fl or "clipper2" in fl):
                continue
            split_block(f.body, f.qual)

    # -- indexing ---------------------------------------------------------
    def _index(self, n, ctx, cls, in_tmpl):
        k = n.get("kind", "")
        if "id" in n and k.endswith("Decl"):
            self.by_id[n["id"]] = n
        if k == "NamespaceDecl":
            for c in kids(n):
                self._index(c, ctx + [n.get("name", "")], None, in_tmpl)
        elif k == "LinkageSpecDecl":
            for c in kids(n):
                self._index(c, ctx, cls, in_tmpl)
        elif k in ("CXXRecordDecl", "ClassTemplateSpecializationDecl"):
            if not n.get("completeDefinition") and not any(c.get("kind") == "FieldDecl" for c in kids(n)):
                # forward declaration
                for c in kids(n):
                    if c.get("id") and c.get("kind", "").endswith("Decl"):
                        self.by_id[c["id"]] = c
                return
            r = Record()
            r.node = n
            r.id = n["id"]
            r.name = n.get("name", "")
            r.qual = "::".join(ctx[1:] + [r.name])
            if k == "ClassTemplateSpecializationDecl":
                targs = [qt(c) for c in kids(n) if c.get("kind") == "TemplateArgument"]
                r.qual += "<" + ",".join(targs) + ">"
            r.fields = [c for c in kids(n) if c.get("kind") == "FieldDecl"]
            r.bases = [b.get("type", {}).get("qualType", "") for b in n.get("bases", [])]
            r.methods = []
            self.record_by_id[r.id] = r
            if not in_tmpl or k == "ClassTemplateSpecializationDecl":
                self.records.setdefault(r.qual, r)
            for c in kids(n):
                self._index(c, ctx + [r.qual.split("::")[-1]], r, in_tmpl)
        elif k == "ClassTemplateDecl":
            for c in kids(n):
                ck = c.get("kind")
                if ck == "CXXRecordDecl":
                    self._index(c, ctx, cls, True)
                elif ck == "ClassTemplateSpecializationDecl":
                    self._index(c, ctx, cls, False)
        elif k == "FunctionTemplateDecl":
            first = True
            for c in kids(n):
                if c.get("kind") in FUNC_KINDS:
                    self._add_func(c, ctx, cls, is_pattern=first, is_inst=not first, tmpl=n)
                    first = False
        elif k in FUNC_KINDS:
            self._add_func(n, ctx, cls, is_pattern=in_tmpl, is_inst=False, tmpl=None)
        elif k == "FriendDecl":
            for c in kids(n):
                self._index(c, ctx[:-1] if cls else ctx, None, in_tmpl)
        elif k == "VarDecl":
            self.globals.append((n, "::".join(ctx[1:] + [n.get("name", "")]), cls))
        elif k == "EnumDecl":
            self.enums[n.get("name", "")] = [c.get("name") for c in kids(n) if c.get("kind") == "EnumConstantDecl"]
            for c in kids(n):
                if "id" in c:
                    self.by_id[c["id"]] = c
        elif k == "FieldDecl":
            pass
        else:
            for c in kids(n):
                if isinstance(c, dict) and c.get("kind", "").endswith("Decl") and "id" in c:
                    self.by_id[c["id"]] = c

    def _add_func(self, n, ctx, cls, is_pattern, is_inst, tmpl):
        f = Func()
        f.node = n
        f.id = n["id"]
        f.name = n.get("name", "")
        f.kind = n.get("kind")
        f.cls = cls.qual if cls else None
        if cls is None and "parentDeclContextId" in n:
            rec = self.record_by_id.get(n["parentDeclContextId"])
            if rec:
                f.cls = rec.qual
        pre = ctx[1:]
        if f.cls and (not pre or pre[-1] != f.cls.split("::")[-1]):
            pre = [p for p in f.cls.split("::")]
        elif f.cls:
            pre = f.cls.split("::")
        f.qual = "::".join(list(pre) + [f.name])
        f.params = [c for c in kids(n) if c.get("kind") == "ParmVarDecl"]
        body = None
        inits = []
        for c in kids(n):
            if c.get("kind") == "CompoundStmt":
                body = c
            elif c.get("kind") == "CXXCtorInitializer":
                inits.append(c)
        f.body = body
        f.inits = inits
        f.is_pattern = is_pattern
        f.is_inst = is_inst
        f.tmpl = tmpl
        f.file = n.get("file")
        f.line = n.get("line")
        f.mangled = n.get("mangledName")
        self.all_func_decls[f.id] = f
        for p in f.params:
            if "id" in p:
                self.by_id[p["id"]] = p
        if body is not None:
            self.funcs.append(f)
            for x in walk(body):
                if x.get("kind", "").endswith("Decl") and "id" in x:
                    self.by_id[x["id"]] = x
        if cls is not None:
            cls.methods.append(f)

    def _link_defs(self):
        # map every declaration id of a function to the Func that has the body
        for f in self.funcs:
            self._def_of[f.id] = f
        for f in self.funcs:
            p = f.node.get("previousDecl")
            seen = 0
            while p and seen < 8:
                self._def_of.setdefault(p, f)
                pn = self.by_id.get(p)
                p = pn.get("previousDecl") if pn else None
                seen += 1
        # declarations that precede a later definition (forward decls)
        for fid, f in self.all_func_decls.items():
            if fid in self._def_of:
                continue
            # find definition with same mangled name
            if f.mangled:
                for g in self.funcs:
                    if g.mangled == f.mangled:
                        self._def_of[fid] = g
                        break

    # -- renamed members / parameters are mapped back to the names the rules were written against --------
    _known_meta = None

    @classmethod
    def known_meta(cls):
        if cls._known_meta is None:
            import json
            fn = os.path.join(os.path.dirname(os.path.abspath(__file__)), "known_names.json")
            with open(fn) as fh:
                cls._known_meta = json.load(fh)
        return cls._known_meta

    def _normalise_names(self):
        """The rules name members and parameters as they were called when the rules were written (vlib/known_names.json: ordered
        fields with types per class, parameter names per function signature).  A member that kept its type and its place in the class
        but changed its name, and a parameter that kept its position but changed its name, are renames: the AST is rewritten to the
        old names (FieldDecl / MemberExpr, ParmVarDecl / DeclRefExpr) so that every rule sees what it expects.  Recorded in
        self.renamed for the evidence.  Anything else (type changed, member added or removed) is left as it is."""
        meta = self.known_meta()
        field_map = {}            # decl id -> old name
        for q, r in self.records.items():
            exp = meta["fields"].get(q)
            if not exp:
                continue
            act = [(fd.get("name"), qt(fd), fd.get("id")) for fd in r.fields if fd.get("name")]
            exp_names = [e[0] for e in exp]
            act_names = [a[0] for a in act]
            gone = [e for e in exp if e[0] not in act_names]
            new = [a for a in act if a[0] not in exp_names]
            if not gone or not new:
                continue
            for g in gone:
                gi = exp_names.index(g[0])
                prev_e = next((exp_names[j] for j in range(gi - 1, -1, -1) if exp_names[j] in act_names), None)
                next_e = next((exp_names[j] for j in range(gi + 1, len(exp_names)) if exp_names[j] in act_names), None)
                cands = []
                for a in new:
                    if a[1] != g[1] or a[2] in field_map:
                        continue
                    ai = act_names.index(a[0])
                    lo = act_names.index(prev_e) if prev_e in act_names else -1
                    hi = act_names.index(next_e) if next_e in act_names else len(act_names)
                    if lo < ai < hi:
                        cands.append(a)
                if len(cands) >= 1:
                    field_map[cands[0][2]] = g[0]
                    self.renamed.append("member %s::%s is %s in the rules' vocabulary" % (q, cands[0][0], g[0]))
        param_map = {}
        for f in list(self.funcs):
            fl = f.file or ""
            if "Clipper2Lib" not in fl or not f.params or f.body is None:
                continue
            names = [p0.get("name") for p0 in f.params]
            if any(not n0 for n0 in names):
                continue
            types = [qt(p0) for p0 in f.params]
            exp = meta["params"].get("%s|%d|%s" % (f.qual, len(names), ";".join(types))) or meta["params"].get("%s|%d" % (f.qual, len(names)))
            if not exp or exp == names:
                continue
            if len(set(exp)) != len(exp):
                continue
            # only a clean rename: no old name may be used for another purpose in this function
            for p0, old in zip(f.params, exp):
                if p0.get("name") != old and "id" in p0:
                    param_map[p0["id"]] = old
            if f.body is not None:
                self.renamed.append("parameters of %s %s are %s in the rules' vocabulary" % (f.qual, names, exp))
        if not field_map and not param_map:
            return
        stack = list(self.tops)
        while stack:
            x = stack.pop()
            if not isinstance(x, dict):
                continue
            k = x.get("kind")
            if k == "FieldDecl" and x.get("id") in field_map:
                x["name"] = field_map[x["id"]]
            elif k == "MemberExpr" and x.get("referencedMemberDecl") in field_map:
                x["name"] = field_map[x["referencedMemberDecl"]]
            elif k == "ParmVarDecl" and x.get("id") in param_map:
                x["name"] = param_map[x["id"]]
            elif k == "DeclRefExpr":
                rd = x.get("referencedDecl")
                if rd and rd.get("id") in param_map:
                    rd["name"] = param_map[rd["id"]]
            elif k == "CXXCtorInitializer":
                ai = x.get("anyInit")
                if isinstance(ai, dict) and ai.get("id") in field_map:
                    ai["name"] = field_map[ai["id"]]
            ks = x.get("inner")
            if ks:
                stack.extend(ks)
        # the indexes hold field names too
        for q, r in self.records.items():
            pass

    # -- new small helpers are inlined at their call sites ------------------------------
    _known_names = None

    @classmethod
    def known_names(cls):
        if cls._known_names is None:
            fn = os.path.join(os.path.dirname(os.path.abspath(__file__)), "known_functions.txt")
            with open(fn) as fh:
                cls._known_names = {l.strip() for l in fh if l.strip() and not l.startswith("#")}
        return cls._known_names

    PURE_ARG_KINDS = ("DeclRefExpr", "MemberExpr", "ImplicitCastExpr", "ParenExpr", "IntegerLiteral", "FloatingLiteral", "CXXBoolLiteralExpr",
                      "CXXNullPtrLiteralExpr", "UnaryOperator", "ArraySubscriptExpr", "CXXThisExpr", "MaterializeTemporaryExpr", "BinaryOperator",
                      "CXXConstructExpr", "CXXStaticCastExpr", "CXXFunctionalCastExpr", "CStyleCastExpr", "ExprWithCleanups", "CXXBindTemporaryExpr",
                      "CXXOperatorCallExpr", "CXXDefaultArgExpr", "StringLiteral", "CharacterLiteral", "ConditionalOperator", "ConstantExpr")

    def _helper_shape(self, f):
        """How a helper can be expanded at a call site: 'expr' ({ return e; }), 'block' (void, no return inside),
        'build' ({ T v...; stmts; return v; }), or None."""
        if f.body is None or f.is_pattern or f.kind not in ("FunctionDecl", "CXXMethodDecl"):
            return None
        if any(not p.get("name") for p in f.params) or f.node.get("variadic"):
            return None
        st = [x for x in kids(f.body) if isinstance(x, dict) and x.get("kind")]
        if not st or len(st) > 14:
            return None
        nodes = list(walk(f.body))
        if any(x.get("kind") in ("GotoStmt", "LabelStmt", "CXXTryStmt", "LambdaExpr", "CoreturnStmt") for x in nodes):
            return None
        # no recursion, no assignment to a by-value parameter
        for x in nodes:
            if x.get("kind") in ("CallExpr", "CXXMemberCallExpr") and self.callee(x)[1] in (f.id,):
                return None
        byval = {p["id"] for p in f.params if "id" in p and not qt(p).rstrip().endswith(("&", "&&"))}
        for x in nodes:
            if x.get("kind") in ("BinaryOperator", "CompoundAssignOperator") and (x.get("opcode") == "=" or x.get("kind") == "CompoundAssignOperator"):
                l = strip(kids(x)[0])
                if l.get("kind") == "DeclRefExpr" and l.get("referencedDecl", {}).get("id") in byval:
                    return None
            if x.get("kind") == "UnaryOperator" and x.get("opcode") in ("++", "--"):
                l = strip(kids(x)[0])
                if l.get("kind") == "DeclRefExpr" and l.get("referencedDecl", {}).get("id") in byval:
                    return None
        rets = [x for x in nodes if x.get("kind") == "ReturnStmt"]
        rtype = qt(f.node).split("(")[0].strip()
        if len(st) == 1 and st[0].get("kind") == "ReturnStmt" and kids(st[0]):
            return "expr"
        if not rets and rtype == "void":
            return "block"
        if len(rets) == 1 and st[-1] is rets[0] and kids(rets[0]):
            r = strip(kids(rets[0])[0])
            while r.get("kind") in ("CXXConstructExpr",) and len(kids(r)) == 1:
                r = strip(kids(r)[0])
            if r.get("kind") == "DeclRefExpr":
                vid = r.get("referencedDecl", {}).get("id")
                for s0 in st[:-1]:
                    if s0.get("kind") == "DeclStmt":
                        ds = [d for d in kids(s0) if d.get("kind") == "VarDecl"]
                        if len(ds) == 1 and ds[0].get("id") == vid:
                            return "build"
        return None

    def _pure(self, e):
        for x in walk(e):
            k = x.get("kind")
            if k is None:
                continue
            if k not in self.PURE_ARG_KINDS:
                return False
            if k in ("BinaryOperator",) and x.get("opcode") in ("=", ","):
                return False
            if k == "UnaryOperator" and x.get("opcode") in ("++", "--"):
                return False
            if k == "CXXOperatorCallExpr":
                nm = strip(kids(x)[0]).get("referencedDecl", {}).get("name", "")
                if nm not in ("operator[]", "operator*", "operator->", "operator+", "operator-"):
                    return False
        return True

    @staticmethod
    def _subst(node, mapping):
        """Deep copy of `node` with DeclRefExprs to the ids in `mapping` replaced by (copies of) the mapped expressions."""
        import copy
        if isinstance(node, list):
            return [AstDB._subst(x, mapping) for x in node]
        if not isinstance(node, dict):
            return node
        if node.get("kind") == "DeclRefExpr":
            rid = node.get("referencedDecl", {}).get("id")
            if rid in mapping:
                return {"kind": "ParenExpr", "type": node.get("type"), "inner": [copy.deepcopy(mapping[rid])], "file": node.get("file"), "line": node.get("line")}
        out = {}
        for k, v in node.items():
            out[k] = AstDB._subst(v, mapping) if k == "inner" else v
        return out

    def _inline_new_helpers(self):
        known = self.known_names()
        helpers = {}
        for f in self.funcs:
            fl = f.file or ""
            if f.name in known or not f.name or not ("Clipper2Lib" in fl or "clipper2" in fl):
                continue
            shape = self._helper_shape(f)
            if shape:
                helpers[f.id] = (f, shape)
        if not helpers:
            return
        by_decl = {}
        for did, g in self._def_of.items():
            if g.id in helpers:
                by_decl[did] = helpers[g.id]
        for hid, hv in helpers.items():
            by_decl[hid] = hv

        def target(call):
            if not isinstance(call, dict) or call.get("kind") not in ("CallExpr", "CXXMemberCallExpr"):
                return None
            name, did, kind = self.callee(call)
            hv = by_decl.get(did)
            if hv is None:
                return None
            f, shape = hv
            if call.get("kind") == "CXXMemberCallExpr":
                mb = self.member_base(call)
                if mb is not None and strip(mb).get("kind") != "CXXThisExpr":
                    return None
            args = self.call_args(call)
            if len(args) != len(f.params):
                return None
            m = {}
            for p0, a in zip(f.params, args):
                if strip(a).get("kind") == "CXXDefaultArgExpr" or not self._pure(a) or "id" not in p0:
                    return None
                m[p0["id"]] = a
            return f, shape, m

        def unwrap(e):
            e = strip(e)
            while e.get("kind") == "CXXConstructExpr" and len(kids(e)) == 1:
                e = strip(kids(e)[0])
            return e

        count = [0]

        def rewrite(node, in_stmt_list):
            ks = node.get("inner")
            if not ks:
                return
            i = 0
            while i < len(ks):
                c = ks[i]
                if not isinstance(c, dict):
                    i += 1
                    continue
                k = node.get("kind")
                stmt_slot = k in ("CompoundStmt",) or (k in ("IfStmt", "ForStmt", "WhileStmt", "DoStmt", "CXXForRangeStmt", "CaseStmt", "DefaultStmt") )
                # (1) a void helper called as a statement
                t = target(strip(c)) if stmt_slot else None
                if t and t[1] == "block":
                    f, shape, m = t
                    body = [self._subst(x, m) for x in kids(f.body)]
                    has_decl = any(x.get("kind") == "DeclStmt" for x in body)
                    if k == "CompoundStmt" and not has_decl:
                        ks[i:i + 1] = body
                    else:
                        ks[i] = {"kind": "CompoundStmt", "inner": body, "file": c.get("file"), "line": c.get("line")}
                    count[0] += 1
                    self.inlined_helpers.append(f.qual)
                    continue
                # (3) T v = helper(...)  with  helper = { T r...; ...; return r; }
                if k == "CompoundStmt" and c.get("kind") == "DeclStmt":
                    ds = [d for d in kids(c) if d.get("kind") == "VarDecl"]
                    if len(ds) == 1:
                        init = [z for z in kids(ds[0]) if isinstance(z, dict) and z.get("kind")]
                        t = target(unwrap(init[-1])) if init else None
                        if t and t[1] == "build":
                            f, shape, m = t
                            st = [x for x in kids(f.body) if isinstance(x, dict) and x.get("kind")]
                            ret = strip(kids(st[-1])[0])
                            while ret.get("kind") == "CXXConstructExpr" and len(kids(ret)) == 1:
                                ret = strip(kids(ret)[0])
                            vid = ret["referencedDecl"]["id"]
                            mine = {"kind": "DeclRefExpr", "type": ds[0].get("type"),
                                    "referencedDecl": {"id": ds[0].get("id"), "kind": "VarDecl", "name": ds[0].get("name"), "type": ds[0].get("type")}}
                            m2 = dict(m)
                            m2[vid] = mine
                            new = []
                            for x in st[:-1]:
                                y = self._subst(x, m2)
                                if x.get("kind") == "DeclStmt" and any(d.get("id") == vid for d in kids(x)):
                                    for d in kids(y):
                                        if d.get("id") == vid:
                                            d["id"] = ds[0].get("id")
                                            d["name"] = ds[0].get("name")
                                new.append(y)
                            ks[i:i + 1] = new
                            count[0] += 1
                            self.inlined_helpers.append(f.qual)
                            continue
                # (2) an expression helper anywhere
                t = target(c)
                if t and t[1] == "expr":
                    f, shape, m = t
                    e = self._subst(kids(kids(f.body)[0])[0], m)
                    ks[i] = {"kind": "ParenExpr", "type": c.get("type"), "inner": [e], "file": c.get("file"), "line": c.get("line")}
                    count[0] += 1
                    self.inlined_helpers.append(f.qual)
                    continue
                rewrite(c, False)
                i += 1

        for f in self.funcs:
            if f.body is not None:
                rewrite(f.body, True)

    # -- lookup --------------------------------------------------------------
    def definition(self, decl_id):
        return self._def_of.get(decl_id)

    def find(self, qual, inst=None, required=True, concrete=True):
        """All function definitions whose qualified name is `qual`.
        concrete=True drops template patterns (keeps instantiations)."""
        res = [f for f in self.funcs if f.qual == qual]
        if concrete:
            res = [f for f in res if not f.is_pattern]
        if inst is not None:
            res = [f for f in res if inst in f.sig]
        if required and not res:
            raise AnalysisBroken("anchor function %s not found in configuration %s" % (qual, self.cfg))
        return res

    def one(self, qual, inst=None, pattern=False):
        res = self.find(qual, inst=inst, concrete=not pattern)
        if pattern:
            res = [f for f in res if f.is_pattern or not f.is_inst]
        if len(res) != 1:
            raise AnalysisBroken("expected exactly one definition of %s%s in %s, found %d: %s" % (
                qual, "[%s]" % inst if inst else "", self.cfg, len(res), [f.sig for f in res]))
        return res[0]

    def record(self, qual):
        r = self.records.get(qual)
        if r is None:
            raise AnalysisBroken("anchor record %s not found in configuration %s" % (qual, self.cfg))
        return r

    def enum(self, name):
        e = self.enums.get(name)
        if not e:
            raise AnalysisBroken("anchor enum %s not found" % name)
        return e

    # -- callee resolution -----------------------------------------------------
    def callee(self, call):
        """(name, decl_id, kind) of the function a call-like node invokes."""
        k = call.get("kind")
        if k in ("CXXConstructExpr", "CXXTemporaryObjectExpr"):
            t = dqt(call)
            return (t, None, "ctor")
        ks = kids(call)
        if not ks:
            return (None, None, None)
        c = strip(ks[0])
        ck = c.get("kind")
        if ck == "DeclRefExpr":
            rd = c.get("referencedDecl", {})
            return (rd.get("name"), rd.get("id"), rd.get("kind"))
        if ck == "MemberExpr":
            return (c.get("name"), c.get("referencedMemberDecl"), "member")
        if ck in ("UnresolvedLookupExpr", "UnresolvedMemberExpr", "CXXDependentScopeMemberExpr"):
            return (c.get("name") or c.get("member"), None, "unresolved")
        return (None, None, ck)

    def callee_func(self, call):
        name, did, kind = self.callee(call)
        if did:
            return self.definition(did)
        return None

    def call_args(self, call):
        k = call.get("kind")
        ks = kids(call)
        if k in ("CXXConstructExpr", "CXXTemporaryObjectExpr"):
            return ks
        if k == "CXXOperatorCallExpr":
            return ks[1:]
        return ks[1:]

    def member_base(self, call):
        """The object expression of a CXXMemberCallExpr."""
        ks = kids(call)
        if not ks:
            return None
        c = strip(ks[0])
        if c.get("kind") == "MemberExpr" and kids(c):
            return kids(c)[0]
        return None


# --------------------------------------------------------------------------
# canonical printing
# --------------------------------------------------------------------------

def canon(n, rename=None, depth=0):
    """A canonical, identifier-resolved rendering of an expression/statement.
    Implicit casts, parentheses and temporaries are dropped."""
    if n is None:
        return "<null>"
    if not isinstance(n, dict) or not n:
        return "<>"
    n = strip(n)
    k = n.get("kind", "")
    ks = kids(n)
    R = rename or (lambda s: s)
    c = lambda x: canon(x, rename, depth + 1)
    if k == "DeclRefExpr":
        return R(n.get("referencedDecl", {}).get("name", "?"))
    if k == "MemberExpr":
        base = ks[0] if ks else None
        if base is not None and strip(base).get("kind") == "CXXThisExpr":
            return R(n.get("name", "?"))
        return "%s%s%s" % (c(base), "->" if n.get("isArrow") else ".", R(n.get("name", "?")))
    if k == "CXXThisExpr":
        return "this"
    if k in ("IntegerLiteral", "FloatingLiteral", "CharacterLiteral"):
        return str(n.get("value"))
    if k == "CXXBoolLiteralExpr":
        return "true" if n.get("value") else "false"
    if k == "CXXNullPtrLiteralExpr" or k == "GNUNullExpr":
        return "nullptr"
    if k == "StringLiteral":
        return str(n.get("value"))
    if k == "BinaryOperator" or k == "CompoundAssignOperator":
        return "(%s %s %s)" % (c(ks[0]), n.get("opcode"), c(ks[1]))
    if k == "UnaryOperator":
        if n.get("isPostfix"):
            return "(%s%s)" % (c(ks[0]), n.get("opcode"))
        return "(%s%s)" % (n.get("opcode"), c(ks[0]))
    if k == "ConditionalOperator":
        return "(%s ? %s : %s)" % (c(ks[0]), c(ks[1]), c(ks[2]))
    if k == "CXXOperatorCallExpr":
        callee = strip(ks[0])
        op = callee.get("referencedDecl", {}).get("name", "op")
        op = op.replace("operator", "")
        args = ks[1:]
        if op == "[]" and len(args) == 2:
            return "%s[%s]" % (c(args[0]), c(args[1]))
        if op == "->" and len(args) == 1:
            return c(args[0])          # smart-pointer arrow: transparent, the enclosing MemberExpr prints "->"
        if op == "()":
            return "%s(%s)" % (c(args[0]), ", ".join(c(a) for a in args[1:]))
        if len(args) == 2:
            return "(%s %s %s)" % (c(args[0]), op, c(args[1]))
        if len(args) == 1:
            return "(%s%s)" % (op, c(args[0]))
        return "op%s(%s)" % (op, ", ".join(c(a) for a in args))
    if k == "CXXMemberCallExpr":
        callee = strip(ks[0])
        return "%s(%s)" % (c(callee), ", ".join(c(a) for a in ks[1:]))
    if k == "CallExpr":
        return "%s(%s)" % (c(ks[0]), ", ".join(c(a) for a in ks[1:]))
    if k in ("CXXConstructExpr", "CXXTemporaryObjectExpr"):
        t = dqt(n)
        return "%s{%s}" % (R(_short_type(t)), ", ".join(c(a) for a in ks))
    if k in ("CXXStaticCastExpr", "CStyleCastExpr", "CXXFunctionalCastExpr", "CXXReinterpretCastExpr", "CXXConstCastExpr"):
        return "cast<%s>(%s)" % (R(_short_type(dqt(n))), c(ks[0]) if ks else "")
    if k == "ArraySubscriptExpr":
        return "%s[%s]" % (c(ks[0]), c(ks[1]))
    if k == "CXXDefaultArgExpr":
        return "<default>"
    if k == "CXXNewExpr":
        return "new %s(%s)" % (R(_short_type(qt(n))), ", ".join(c(a) for a in ks))
    if k == "CXXDeleteExpr":
        return "delete %s" % c(ks[0])
    if k == "InitListExpr":
        return "{%s}" % ", ".join(c(a) for a in ks)
    if k == "LambdaExpr":
        return "<lambda@%s>" % n.get("line")
    if k == "UnresolvedLookupExpr":
        return R(n.get("name", "?"))
    if k == "CXXDependentScopeMemberExpr":
        return "%s.%s" % (c(ks[0]) if ks else "this", R(n.get("member", "?")))
    if k == "UnaryExprOrTypeTraitExpr":
        return "%s(...)" % n.get("name")
    if k == "CXXScalarValueInitExpr":
        return "%s{}" % _short_type(qt(n))
    if k == "SubstNonTypeTemplateParmExpr":
        return c(ks[-1]) if ks else "?"
    if k == "CXXStdInitializerListExpr":
        return c(ks[0]) if ks else "{}"
    if k == "DeclStmt":
        return "; ".join(c(d) for d in ks)
    if k == "VarDecl":
        init = [x for x in ks if x.get("kind") not in ("FullComment",)]
        s = "%s %s" % (_short_type(qt(n)), R(n.get("name", "?")))
        if init:
            s += " = " + c(init[-1])
        return s
    if k == "ReturnStmt":
        return "return %s" % (c(ks[0]) if ks else "")
    if k == "NullStmt":
        return ";"
    if k == "BreakStmt":
        return "break"
    if k == "ContinueStmt":
        return "continue"
    if k == "CompoundStmt":
        return "{ %s }" % "; ".join(c(s) for s in ks)
    if k == "IfStmt":
        parts = _if_parts(n)
        s = "if (%s) %s" % (c(parts[0]), c(parts[1]))
        if parts[2] is not None:
            s += " else %s" % c(parts[2])
        return s
    if k == "WhileStmt":
        return "while (%s) %s" % (c(ks[0]), c(ks[1]))
    if k == "DoStmt":
        return "do %s while (%s)" % (c(ks[0]), c(ks[1]))
    if k == "ForStmt":
        return "for (%s; %s; %s) %s" % tuple(c(x) if x else "" for x in (ks[0], ks[2], ks[3], ks[4]))
    if k == "CXXForRangeStmt":
        lv = ks[-2] if len(ks) >= 2 else None
        return "for (%s : ...) %s" % (c(lv), c(ks[-1]))
    if k == "SwitchStmt":
        return "switch (%s) %s" % (c(ks[0]), c(ks[-1]))
    if k == "CaseStmt":
        return "case %s: %s" % (c(ks[0]), "; ".join(c(x) for x in ks[1:]))
    if k == "DefaultStmt":
        return "default: %s" % "; ".join(c(x) for x in ks)
    return "<%s %s>" % (k, ", ".join(c(x) for x in ks))


def _short_type(t):
    return (t or "").replace("Clipper2Lib::", "").replace("std::", "")


def _if_parts(n):
    """(cond, then, else) of an IfStmt, robust to init/condvar slots."""
    ks = [x for x in kids(n)]
    has_else = n.get("hasElse")
    has_init = n.get("hasInit")
    has_var = n.get("hasVar")
    i = 0
    if has_init:
        i += 1
    if has_var:
        i += 1
    cond = ks[i]
    then = ks[i + 1]
    els = ks[i + 2] if has_else and len(ks) > i + 2 else None
    return cond, then, els


if_parts = _if_parts


def is_constexpr_if(n):
    return bool(n.get("isConstexpr"))
