"""Exact polynomial / rational-function normal forms of straight-line arithmetic in the AST.

Used by engine E14: the value a sequence of declarations and assignments gives to a variable is normalised to a quotient of two
multivariate polynomials with rational coefficients over the *symbols* of the function (coordinates of its point parameters, scalar
parameters, and locals whose initialiser is not arithmetic, which stay opaque).  Two expressions denote the same real function iff
their normal forms are equal - an identity check, not an evaluation: nothing is run, no values are chosen.

Casts between arithmetic types and the rounding functions (nearbyint, round, static_cast to an integer) are transparent: the normal
form is the exact real value before rounding.  Everything else (calls, conditionals, shifts) is Unsupported and makes the variable an
opaque symbol of its own.
"""
from fractions import Fraction

from .astq import kids, strip, canon


class Unsupported(Exception):
    pass


class Poly:
    __slots__ = ("t",)

    def __init__(self, terms=None):
        self.t = {m: c for m, c in (terms or {}).items() if c != 0}

    @staticmethod
    def const(c):
        return Poly({(): Fraction(c)})

    @staticmethod
    def var(name):
        return Poly({((name, 1),): Fraction(1)})

    def __add__(self, o):
        t = dict(self.t)
        for m, c in o.t.items():
            t[m] = t.get(m, 0) + c
        return Poly(t)

    def __neg__(self):
        return Poly({m: -c for m, c in self.t.items()})

    def __sub__(self, o):
        return self + (-o)

    def __mul__(self, o):
        t = {}
        for m1, c1 in self.t.items():
            for m2, c2 in o.t.items():
                d = dict(m1)
                for v, e in m2:
                    d[v] = d.get(v, 0) + e
                m = tuple(sorted(d.items()))
                t[m] = t.get(m, 0) + c1 * c2
        return Poly(t)

    def is_zero(self):
        return not self.t

    def __eq__(self, o):
        return isinstance(o, Poly) and self.t == o.t

    def __hash__(self):
        return hash(tuple(sorted(self.t.items())))

    def vars(self):
        return {v for m in self.t for v, _ in m}

    def subst(self, var, val):
        """Replace every power var^e by val^e (val: Rat); returns a Rat."""
        out = Rat(Poly())
        cache = {0: Rat.const(1)}
        for m, c in self.t.items():
            e = dict(m).get(var, 0)
            rest = tuple((v, k) for v, k in m if v != var)
            if e not in cache:
                r = Rat.const(1)
                for _ in range(e):
                    r = r * val
                cache[e] = r
            out = out + Rat(Poly({rest: c})) * cache[e]
        return out

    def reduce_square(self, var, val):
        """Use var^2 == val (val: Rat): even powers are replaced, an odd power keeps one factor var."""
        out = Rat(Poly())
        for m, c in self.t.items():
            e = dict(m).get(var, 0)
            rest = tuple((v, k) for v, k in m if v != var)
            term = Rat(Poly({rest + (((var, 1),) if e % 2 else ()): c})) if e % 2 == 0 else Rat(Poly({tuple(sorted(rest + ((var, 1),))): c}))
            r = Rat.const(1)
            for _ in range(e // 2):
                r = r * val
            out = out + term * r
        return out

    def __repr__(self):
        if not self.t:
            return "0"
        out = []
        for m, c in sorted(self.t.items()):
            mono = "*".join(v if e == 1 else "%s^%d" % (v, e) for v, e in m)
            if not mono:
                out.append(str(c))
            elif c == 1:
                out.append(mono)
            elif c == -1:
                out.append("-" + mono)
            else:
                out.append("%s*%s" % (c, mono))
        return " + ".join(out).replace("+ -", "- ")


class Rat:
    """num / den (den not the zero polynomial).  Not reduced: equality is decided by cross-multiplication."""
    __slots__ = ("n", "d", "tag")

    def __init__(self, n, d=None, tag=None):
        self.n = n
        self.d = d if d is not None else Poly.const(1)
        self.tag = tag           # None | "abs" | "sgn" | "mag": |value|, sign(value), |value| as a 128-bit magnitude

    @staticmethod
    def const(c):
        return Rat(Poly.const(c))

    @staticmethod
    def var(name):
        return Rat(Poly.var(name))

    def _plain(self, o):
        if self.tag or o.tag:
            raise Unsupported("arithmetic on a magnitude / sign value")

    def __add__(self, o):
        self._plain(o)
        if self.d == o.d:
            return Rat(self.n + o.n, self.d)
        return Rat(self.n * o.d + o.n * self.d, self.d * o.d)

    def __sub__(self, o):
        self._plain(o)
        if self.d == o.d:
            return Rat(self.n - o.n, self.d)
        return Rat(self.n * o.d - o.n * self.d, self.d * o.d)

    def __neg__(self):
        if self.tag:
            raise Unsupported("negation of a magnitude / sign value")
        return Rat(-self.n, self.d)

    def __mul__(self, o):
        if self.tag or o.tag:
            if self.tag == o.tag and self.tag in ("sgn", "abs"):
                return Rat(self.n * o.n, self.d * o.d, self.tag)       # sign(p)sign(q) = sign(pq);  |p||q| = |pq|
            raise Unsupported("product of a magnitude / sign value with something else")
        return Rat(self.n * o.n, self.d * o.d)

    def __truediv__(self, o):
        self._plain(o)
        if o.n.is_zero():
            raise Unsupported("division by zero")
        return Rat(self.n * o.d, self.d * o.n)

    def is_zero(self):
        return self.n.is_zero()

    def subst(self, var, val):
        return self.n.subst(var, val) / self.d.subst(var, val)

    def reduce_square(self, var, val):
        return self.n.reduce_square(var, val) / self.d.reduce_square(var, val)

    def vars(self):
        return self.n.vars() | self.d.vars()

    def same(self, o):
        return (self.n * o.d - o.n * self.d).is_zero()

    def __repr__(self):
        s = repr(self.n) if self.d == Poly.const(1) else "(%r) / (%r)" % (self.n, self.d)
        return "%s(%s)" % (self.tag, s) if self.tag else s


def dqt_(n):
    t = n.get("type") or {}
    return t.get("desugaredQualType", t.get("qualType", ""))


def _canon_rat(r):
    return repr(r)


STMT_KINDS = ("CompoundStmt", "ReturnStmt", "IfStmt", "BinaryOperator", "CompoundAssignOperator", "CXXOperatorCallExpr", "CallExpr",
              "CXXMemberCallExpr", "ExprWithCleanups", "DeclStmt", "ForStmt", "WhileStmt", "BreakStmt", "ContinueStmt", "NullStmt", "UnaryOperator")


def _always_returns(s):
    if s is None:
        return False
    if s.get("kind") == "ReturnStmt":
        return True
    if s.get("kind") == "CompoundStmt":
        ks = [c for c in kids(s) if isinstance(c, dict) and c.get("kind")]
        return bool(ks) and _always_returns(ks[-1])
    return False


UFUNCS = {}        # uninterpreted function symbol -> (function name, [argument normal forms])


CASTS = ("CXXStaticCastExpr", "CStyleCastExpr", "CXXFunctionalCastExpr", "ImplicitCastExpr", "ParenExpr", "ExprWithCleanups",
         "MaterializeTemporaryExpr", "CXXBindTemporaryExpr", "ConstantExpr")
ROUNDERS = ("nearbyint", "round", "rint", "lround", "llround", "nearbyintl", "roundl")


def _skip(e):
    while isinstance(e, dict) and e.get("kind") in CASTS and kids(e):
        e = kids(e)[-1] if e.get("kind") in ("CXXStaticCastExpr", "CStyleCastExpr", "CXXFunctionalCastExpr") else kids(e)[0]
    return e


class Agg:
    """A point-like aggregate: explicit fields, or (base given) the fields of a symbolic object `base.x`, `base.y` ..."""
    __slots__ = ("f", "base")

    def __init__(self, fields=None, base=None):
        self.f = dict(fields or {})
        self.base = base

    def get(self, name):
        if name in self.f:
            return self.f[name]
        if self.base is not None:
            return Rat.var("%s.%s" % (self.base, name))
        raise Unsupported("field %s of an aggregate without it" % name)

    def __repr__(self):
        return "{%s}" % ", ".join("%s: %r" % kv for kv in sorted(self.f.items())) if self.base is None else "<%s>" % self.base


POINTY = ("Point<", "Point64", "PointD")


def _is_pointy(t):
    t = t or ""
    return any(p in t for p in POINTY) and "vector" not in t and "Path" not in t


class PolyEval:
    def __init__(self, db, env=None, extended=False):
        self.db = db
        self.env = dict(env or {})       # decl id -> Rat | Agg
        self.rounded = False
        self.clamps = 0
        self.extended = extended         # aggregates, inlining of straight-line library functions, uninterpreted function symbols
        self.on_expr = None              # (evaluator, expression statement)
        self.depth = 0
        self.on_store = None             # (evaluator, lhs node, rhs node, stmt): stores to anything but a plain local, in source order
        self.on_return = None            # (evaluator, value node, stmt)

    def sym_of(self, e):
        """Symbol name of an l-value path: p, p.x, p->x, it->y ..."""
        e = _skip(e)
        k = e.get("kind")
        if k == "DeclRefExpr":
            return e.get("referencedDecl", {}).get("name")
        if k == "MemberExpr" and kids(e):
            if _skip(kids(e)[0]).get("kind") == "CXXThisExpr":
                return e.get("name")
            b = self.sym_of(kids(e)[0])
            if b is None:
                return None
            return "%s.%s" % (b, e.get("name"))
        if k == "MemberExpr" and not kids(e):
            return e.get("name")                    # implicit this
        if k == "CXXOperatorCallExpr":
            ks = kids(e)
            op = _skip(ks[0]).get("referencedDecl", {}).get("name", "")
            if op in ("operator->", "operator*") and len(ks) == 2:
                return self.sym_of(ks[1])
            if op == "operator[]" and len(ks) == 3 and self.extended:
                b = self.sym_of(ks[1])
                i = _skip(ks[2])
                if b is not None and i.get("kind") in ("DeclRefExpr", "IntegerLiteral"):
                    return "%s[%s]" % (b, i.get("referencedDecl", {}).get("name") if i.get("kind") == "DeclRefExpr" else i.get("value"))
        if k == "UnaryOperator" and e.get("opcode") == "*":
            return self.sym_of(kids(e)[0])
        if k == "CXXThisExpr":
            return "this"
        return None

    def _agg_of(self, e):
        """Aggregate value of a point-typed expression (extended mode)."""
        e0 = _skip(e)
        k = e0.get("kind")
        if k == "DeclRefExpr" and e0.get("referencedDecl", {}).get("id") in self.env:
            v = self.env[e0["referencedDecl"]["id"]]
            if isinstance(v, Agg):
                return v
            raise Unsupported("scalar used as aggregate")
        if k in ("CXXConstructExpr", "CXXTemporaryObjectExpr", "InitListExpr", "CXXFunctionalCastExpr"):
            args = [a for a in kids(e0) if isinstance(a, dict) and a.get("kind") and a.get("kind") != "CXXDefaultArgExpr"]
            if len(args) == 0:
                return Agg({"x": Rat.const(0), "y": Rat.const(0), "z": Rat.const(0)})
            if len(args) == 1:
                return self._agg_of(args[0])
            f = {"x": self.ev(args[0]), "y": self.ev(args[1])}
            if len(args) >= 3:
                try:
                    f["z"] = self.ev(args[2])
                except Unsupported:
                    pass
            return Agg(f)
        if k in ("CallExpr", "CXXMemberCallExpr", "CXXOperatorCallExpr"):
            v = self._call(e0)
            if isinstance(v, Agg):
                return v
            raise Unsupported("call does not yield an aggregate")
        s = self.sym_of(e0)
        if s is not None:
            return Agg(base=s.replace("this.", ""))
        raise Unsupported("aggregate %s" % k)

    def ev(self, e):
        e = _skip(e)
        k = e.get("kind")
        ks = kids(e)
        if k == "IntegerLiteral":
            return Rat.const(int(e.get("value")))
        if k == "FloatingLiteral":
            return Rat.const(Fraction(str(e.get("value"))))
        if k == "DeclRefExpr":
            rd = e.get("referencedDecl", {})
            if rd.get("id") in self.env:
                return self.env[rd["id"]]
            if rd.get("kind") in ("ParmVarDecl", "VarDecl"):
                if self.extended and _is_pointy(dqt_(e)):
                    return Agg(base=rd.get("name"))
                return Rat.var(rd.get("name"))
            raise Unsupported("reference to %s" % rd.get("kind"))
        if self.extended and k in ("CXXConstructExpr", "CXXTemporaryObjectExpr") and _is_pointy(dqt_(e)):
            return self._agg_of(e)
        if self.extended and k == "MemberExpr" and ks:
            b = _skip(ks[0])
            if b.get("kind") == "CXXThisExpr":
                return Rat.var(e.get("name"))
            if (b.get("kind") == "DeclRefExpr" and isinstance(self.env.get(b.get("referencedDecl", {}).get("id")), Agg)) or \
                    b.get("kind") in ("CallExpr", "CXXMemberCallExpr", "CXXConstructExpr", "CXXTemporaryObjectExpr"):
                return self._agg_of(b).get(e.get("name"))
        if k == "MemberExpr":
            s = self.sym_of(e)
            if s is None:
                raise Unsupported("member of a computed object")
            b = _skip(ks[0]) if ks else None
            if b is not None and b.get("kind") == "DeclRefExpr" and b.get("referencedDecl", {}).get("id") in self.env:
                raise Unsupported("member of a bound local")
            return Rat.var(s.replace("this.", ""))
        if k == "UnaryOperator":
            op = e.get("opcode")
            if op == "-":
                return -self.ev(ks[0])
            if op == "+":
                return self.ev(ks[0])
            raise Unsupported("unary %s" % op)
        if k == "BinaryOperator":
            op = e.get("opcode")
            if op in ("+", "-", "*", "/"):
                a, b = self.ev(ks[0]), self.ev(ks[1])
                if op == "+":
                    return a + b
                if op == "-":
                    return a - b
                if op == "*":
                    return a * b
                return a / b
            raise Unsupported("binary %s" % op)
        if k in ("CallExpr", "CXXMemberCallExpr", "CXXOperatorCallExpr") and self.extended:
            return self._call(e)
        if k in ("CallExpr", "CXXMemberCallExpr"):
            name = self.db.callee(e)[0]
            args = self.db.call_args(e)
            if name in ROUNDERS and len(args) == 1:
                self.rounded = True
                return self.ev(args[0])
            if name in ("abs", "fabs", "llabs", "labs") and len(args) == 1:
                v = self.ev(args[0])
                if v.tag:
                    raise Unsupported("abs of a tagged value")
                return Rat(v.n, v.d, "abs")
            if name == "TriSign" and len(args) == 1:
                v = self.ev(args[0])
                if v.tag:
                    raise Unsupported("TriSign of a tagged value")
                return Rat(v.n, v.d, "sgn")
            if name == "Multiply" and len(args) == 2:
                a, b = self.ev(args[0]), self.ev(args[1])
                if a.tag == "abs" and b.tag == "abs":
                    return Rat(a.n * b.n, a.d * b.d, "mag")
                raise Unsupported("Multiply of values that are not magnitudes")
            if name == "Sqr" and len(args) == 1:
                v = self.ev(args[0])
                return v * v
            raise Unsupported("call of %s" % name)
        raise Unsupported("%s" % k)

    def _call(self, e):
        """Extended mode: rounding is transparent; a straight-line library function is evaluated on the normal forms of its arguments;
        any other call with arithmetic arguments becomes an uninterpreted function symbol of those normal forms."""
        db = self.db
        name = db.callee(e)[0]
        args = db.call_args(e) if e.get("kind") != "CXXOperatorCallExpr" else kids(e)[1:]
        if e.get("kind") == "CXXOperatorCallExpr" and name in ("operator[]", "operator->", "operator*"):
            s = self.sym_of(e)
            if s is None:
                raise Unsupported("subscript of a computed object")
            return Agg(base=s) if _is_pointy(dqt_(e)) else Rat.var(s)
        if name in ROUNDERS and len(args) == 1:
            self.rounded = True
            return self.ev(args[0])
        if name == "Sqr" and len(args) == 1:
            v = self.ev(args[0])
            return v * v
        g = db.callee_func(e)
        vals = []
        for a in args:
            try:
                vals.append(self._agg_of(a) if _is_pointy(dqt_(_skip(a))) else self.ev(a))
            except Unsupported:
                vals.append(None)
        if g is not None and g.body is not None and self.depth < 4 and g.file and ("/clipper2/" in g.file or "/Clipper2Lib/" in g.file) \
                and all(v is not None for v in vals) and len(vals) <= len(g.params):
            sub = PolyEval(db, {}, extended=True)
            sub.depth = self.depth + 1
            for p0, v in zip(g.params, vals):
                sub.env[p0.get("id")] = v
            outs = []

            def on_return(ev, v, s):
                try:
                    outs.append(ev._agg_of(v) if _is_pointy(dqt_(_skip(v))) else ev.ev(v))
                except Unsupported:
                    outs.append(None)
            sub.on_return = on_return
            sub.top_returns_only = True
            sub.bind_block(g.body)
            self.rounded = self.rounded or sub.rounded
            if outs and outs[-1] is not None:
                return outs[-1]
        if all(isinstance(v, Rat) and not v.tag for v in vals) and vals:
            sym = "%s(%s)" % (name, ", ".join(_canon_rat(v) for v in vals))
            UFUNCS[sym] = (name, list(vals))
            return Rat.var(sym)
        raise Unsupported("call of %s" % name)

    def bind_block(self, node, conditional=False):
        """Walk statements in source order, binding locals (opaque when their initialiser is not arithmetic).  A re-assignment of an
        already bound local under a condition (a clamp such as `if (q < 0) q = 0;`) is not followed: the normal form is the one of
        the path on which no such branch is taken."""
        for s in kids(node):
            if not isinstance(s, dict):
                continue
            while s.get("kind") == "ExprWithCleanups" and kids(s):
                s = kids(s)[0]
            k = s.get("kind")
            if k == "DeclStmt":
                for d in kids(s):
                    if d.get("kind") != "VarDecl" or "id" not in d:
                        continue
                    if d["id"] in getattr(self, "pinned", ()):
                        continue                  # kept symbolic by the rule (e.g. a vector chosen by a branch)
                    init = [c for c in kids(d) if isinstance(c, dict) and c.get("kind")]
                    if not init:
                        continue
                    try:
                        if self.extended and _is_pointy(dqt_(d)):
                            self.env[d["id"]] = self._agg_of(init[-1])
                        else:
                            self.env[d["id"]] = self.ev(init[-1])
                    except Unsupported:
                        self.env[d["id"]] = Agg(base="<%s>" % d.get("name")) if (self.extended and _is_pointy(dqt_(d))) else Rat.var("<%s>" % d.get("name"))
            elif k == "BinaryOperator" and s.get("opcode") == "=":
                l = _skip(kids(s)[0])
                if l.get("kind") == "DeclRefExpr" and l.get("referencedDecl", {}).get("kind") == "VarDecl":
                    if conditional and l["referencedDecl"].get("id") in self.env:
                        self.clamps += 1
                        continue
                    try:
                        self.env[l["referencedDecl"]["id"]] = self.ev(kids(s)[1])
                    except Unsupported:
                        self.env[l["referencedDecl"]["id"]] = Rat.var("<%s>" % l["referencedDecl"].get("name"))
                elif self.on_store is not None:
                    self.on_store(self, l, kids(s)[1], s)
            elif k == "CompoundAssignOperator" and s.get("opcode") in ("+=", "-=", "*=", "/="):
                l = _skip(kids(s)[0])
                if l.get("kind") == "DeclRefExpr" and l.get("referencedDecl", {}).get("id") in self.env and not conditional:
                    vid = l["referencedDecl"]["id"]
                    try:
                        a, b = self.env[vid], self.ev(kids(s)[1])
                        op = s.get("opcode")[0]
                        self.env[vid] = a + b if op == "+" else (a - b if op == "-" else (a * b if op == "*" else a / b))
                    except (Unsupported, TypeError):
                        self.env[vid] = Rat.var("<%s>" % l["referencedDecl"].get("name"))
                elif l.get("kind") == "DeclRefExpr" and conditional:
                    self.clamps += 1
            elif k == "CXXOperatorCallExpr" and self.extended and self.db.callee(s)[0] == "operator=" and len(kids(s)) == 3:
                l = _skip(kids(s)[1])
                if l.get("kind") == "DeclRefExpr" and l.get("referencedDecl", {}).get("kind") == "VarDecl":
                    if conditional and l["referencedDecl"].get("id") in self.env:
                        self.clamps += 1
                        continue
                    try:
                        self.env[l["referencedDecl"]["id"]] = self._agg_of(kids(s)[2])
                    except Unsupported:
                        self.env[l["referencedDecl"]["id"]] = Agg(base="<%s>" % l["referencedDecl"].get("name"))
            elif k in ("CallExpr", "CXXMemberCallExpr", "ExprWithCleanups") and self.on_expr is not None:
                self.on_expr(self, s)
            elif k == "CompoundStmt":
                self.bind_block(s, conditional)
            elif k == "IfStmt":
                from .astq import if_parts
                _cond, then, els = if_parts(s)
                if then is not None:
                    self.bind_block({"inner": [then]}, True)
                if els is not None:
                    self.bind_block({"inner": [els]}, conditional if _always_returns(then) else True)
            elif k == "ReturnStmt" and self.on_return is not None and kids(s):
                if conditional and getattr(self, "top_returns_only", False):
                    continue                      # an early return under a guard (degenerate input) is not the function's formula
                self.on_return(self, kids(s)[0], s)
