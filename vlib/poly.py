"""Exact polynomial / rational-function normal forms of straight-line arithmetic in the AST.

Used by engine E14: the value a sequence of declarations and assignments gives to a variable is normalised to a quotient of two
multivariate polynomials with rational coefficients over the *symbols* of the function (coordinates of its point parameters, scalar
parameters, and locals whose initialiser is not arithmetic, which stay opaque).  Two expressions denote the same real function iff
their normal forms are equal - an identity check, not an evaluation: nothing is run, no values are chosen.

Casts between arithmetic types and the rounding functions (nearbyint, round, static_cast to an integer) are transparent: the normal
form is the exact real value before rounding.  Everything else (calls, conditionals, shifts) is Unsupported and makes the variable an
opaque symbol of its own.
"""
from fractions import Fraction

from .astq import kids, strip, canon


class Unsupported(Exception):
    pass


class Poly:
    __slots__ = ("t",)

    def __init__(self, terms=None):
        self.t = {m: c for m, c in (terms or {}).items() if c != 0}

    @staticmethod
    def const(c):
        return Poly({(): Fraction(c)})

    @staticmethod
    def var(name):
        return Poly({((name, 1),): Fraction(1)})

    def __add__(self, o):
        t = dict(self.t)
        for m, c in o.t.items():
            t[m] = t.get(m, 0) + c
        return Poly(t)

    def __neg__(self):
        return Poly({m: -c for m, c in self.t.items()})

    def __sub__(self, o):
        return self + (-o)

    def __mul__(self, o):
        t = {}
        for m1, c1 in self.t.items():
            for m2, c2 in o.t.items():
                d = dict(m1)
                for v, e in m2:
                    d[v] = d.get(v, 0) + e
                m = tuple(sorted(d.items()))
                t[m] = t.get(m, 0) + c1 * c2
        return Poly(t)

    def is_zero(self):
        return not self.t

    def __eq__(self, o):
        return isinstance(o, Poly) and self.t == o.t

    def __hash__(self):
        return hash(tuple(sorted(self.t.items())))

    def vars(self):
        return {v for m in self.t for v, _ in m}

    def __repr__(self):
        if not self.t:
            return "0"
        out = []
        for m, c in sorted(self.t.items()):
            mono = "*".join(v if e == 1 else "%s^%d" % (v, e) for v, e in m)
            if not mono:
                out.append(str(c))
            elif c == 1:
                out.append(mono)
            elif c == -1:
                out.append("-" + mono)
            else:
                out.append("%s*%s" % (c, mono))
        return " + ".join(out).replace("+ -", "- ")


class Rat:
    """num / den (den not the zero polynomial).  Not reduced: equality is decided by cross-multiplication."""
    __slots__ = ("n", "d", "tag")

    def __init__(self, n, d=None, tag=None):
        self.n = n
        self.d = d if d is not None else Poly.const(1)
        self.tag = tag           # None | "abs" | "sgn" | "mag": |value|, sign(value), |value| as a 128-bit magnitude

    @staticmethod
    def const(c):
        return Rat(Poly.const(c))

    @staticmethod
    def var(name):
        return Rat(Poly.var(name))

    def _plain(self, o):
        if self.tag or o.tag:
            raise Unsupported("arithmetic on a magnitude / sign value")

    def __add__(self, o):
        self._plain(o)
        if self.d == o.d:
            return Rat(self.n + o.n, self.d)
        return Rat(self.n * o.d + o.n * self.d, self.d * o.d)

    def __sub__(self, o):
        self._plain(o)
        if self.d == o.d:
            return Rat(self.n - o.n, self.d)
        return Rat(self.n * o.d - o.n * self.d, self.d * o.d)

    def __neg__(self):
        if self.tag:
            raise Unsupported("negation of a magnitude / sign value")
        return Rat(-self.n, self.d)

    def __mul__(self, o):
        if self.tag or o.tag:
            if self.tag == o.tag and self.tag in ("sgn", "abs"):
                return Rat(self.n * o.n, self.d * o.d, self.tag)       # sign(p)sign(q) = sign(pq);  |p||q| = |pq|
            raise Unsupported("product of a magnitude / sign value with something else")
        return Rat(self.n * o.n, self.d * o.d)

    def __truediv__(self, o):
        self._plain(o)
        if o.n.is_zero():
            raise Unsupported("division by zero")
        return Rat(self.n * o.d, self.d * o.n)

    def is_zero(self):
        return self.n.is_zero()

    def same(self, o):
        return (self.n * o.d - o.n * self.d).is_zero()

    def __repr__(self):
        s = repr(self.n) if self.d == Poly.const(1) else "(%r) / (%r)" % (self.n, self.d)
        return "%s(%s)" % (self.tag, s) if self.tag else s


CASTS = ("CXXStaticCastExpr", "CStyleCastExpr", "CXXFunctionalCastExpr", "ImplicitCastExpr", "ParenExpr", "ExprWithCleanups",
         "MaterializeTemporaryExpr", "CXXBindTemporaryExpr", "ConstantExpr")
ROUNDERS = ("nearbyint", "round", "rint", "lround", "llround", "nearbyintl", "roundl")


def _skip(e):
    while isinstance(e, dict) and e.get("kind") in CASTS and kids(e):
        e = kids(e)[-1] if e.get("kind") in ("CXXStaticCastExpr", "CStyleCastExpr", "CXXFunctionalCastExpr") else kids(e)[0]
    return e


class PolyEval:
    def __init__(self, db, env=None):
        self.db = db
        self.env = dict(env or {})       # decl id -> Rat
        self.rounded = False
        self.clamps = 0
        self.on_store = None             # (evaluator, lhs node, rhs node, stmt): stores to anything but a plain local, in source order
        self.on_return = None            # (evaluator, value node, stmt)

    def sym_of(self, e):
        """Symbol name of an l-value path: p, p.x, p->x, it->y ..."""
        e = _skip(e)
        k = e.get("kind")
        if k == "DeclRefExpr":
            return e.get("referencedDecl", {}).get("name")
        if k == "MemberExpr" and kids(e):
            b = self.sym_of(kids(e)[0])
            if b is None:
                return None
            return "%s.%s" % (b, e.get("name"))
        if k == "CXXOperatorCallExpr":
            ks = kids(e)
            op = _skip(ks[0]).get("referencedDecl", {}).get("name", "")
            if op in ("operator->", "operator*") and len(ks) == 2:
                return self.sym_of(ks[1])
        if k == "UnaryOperator" and e.get("opcode") == "*":
            return self.sym_of(kids(e)[0])
        return None

    def ev(self, e):
        e = _skip(e)
        k = e.get("kind")
        ks = kids(e)
        if k == "IntegerLiteral":
            return Rat.const(int(e.get("value")))
        if k == "FloatingLiteral":
            return Rat.const(Fraction(str(e.get("value"))))
        if k == "DeclRefExpr":
            rd = e.get("referencedDecl", {})
            if rd.get("id") in self.env:
                return self.env[rd["id"]]
            if rd.get("kind") in ("ParmVarDecl", "VarDecl"):
                return Rat.var(rd.get("name"))
            raise Unsupported("reference to %s" % rd.get("kind"))
        if k == "MemberExpr":
            s = self.sym_of(e)
            if s is None:
                raise Unsupported("member of a computed object")
            b = _skip(ks[0]) if ks else None
            if b is not None and b.get("kind") == "DeclRefExpr" and b.get("referencedDecl", {}).get("id") in self.env:
                raise Unsupported("member of a bound local")
            return Rat.var(s)
        if k == "UnaryOperator":
            op = e.get("opcode")
            if op == "-":
                return -self.ev(ks[0])
            if op == "+":
                return self.ev(ks[0])
            raise Unsupported("unary %s" % op)
        if k == "BinaryOperator":
            op = e.get("opcode")
            if op in ("+", "-", "*", "/"):
                a, b = self.ev(ks[0]), self.ev(ks[1])
                if op == "+":
                    return a + b
                if op == "-":
                    return a - b
                if op == "*":
                    return a * b
                return a / b
            raise Unsupported("binary %s" % op)
        if k in ("CallExpr", "CXXMemberCallExpr"):
            name = self.db.callee(e)[0]
            args = self.db.call_args(e)
            if name in ROUNDERS and len(args) == 1:
                self.rounded = True
                return self.ev(args[0])
            if name in ("abs", "fabs", "llabs", "labs") and len(args) == 1:
                v = self.ev(args[0])
                if v.tag:
                    raise Unsupported("abs of a tagged value")
                return Rat(v.n, v.d, "abs")
            if name == "TriSign" and len(args) == 1:
                v = self.ev(args[0])
                if v.tag:
                    raise Unsupported("TriSign of a tagged value")
                return Rat(v.n, v.d, "sgn")
            if name == "Multiply" and len(args) == 2:
                a, b = self.ev(args[0]), self.ev(args[1])
                if a.tag == "abs" and b.tag == "abs":
                    return Rat(a.n * b.n, a.d * b.d, "mag")
                raise Unsupported("Multiply of values that are not magnitudes")
            if name == "Sqr" and len(args) == 1:
                v = self.ev(args[0])
                return v * v
            raise Unsupported("call of %s" % name)
        raise Unsupported("%s" % k)

    def bind_block(self, node, conditional=False):
        """Walk statements in source order, binding locals (opaque when their initialiser is not arithmetic).  A re-assignment of an
        already bound local under a condition (a clamp such as `if (q < 0) q = 0;`) is not followed: the normal form is the one of
        the path on which no such branch is taken."""
        for s in kids(node):
            if not isinstance(s, dict):
                continue
            k = s.get("kind")
            if k == "DeclStmt":
                for d in kids(s):
                    if d.get("kind") != "VarDecl" or "id" not in d:
                        continue
                    init = [c for c in kids(d) if isinstance(c, dict) and c.get("kind")]
                    if not init:
                        continue
                    try:
                        self.env[d["id"]] = self.ev(init[-1])
                    except Unsupported:
                        self.env[d["id"]] = Rat.var("<%s>" % d.get("name"))
            elif k == "BinaryOperator" and s.get("opcode") == "=":
                l = _skip(kids(s)[0])
                if l.get("kind") == "DeclRefExpr" and l.get("referencedDecl", {}).get("kind") == "VarDecl":
                    if conditional and l["referencedDecl"].get("id") in self.env:
                        self.clamps += 1
                        continue
                    try:
                        self.env[l["referencedDecl"]["id"]] = self.ev(kids(s)[1])
                    except Unsupported:
                        self.env[l["referencedDecl"]["id"]] = Rat.var("<%s>" % l["referencedDecl"].get("name"))
                elif self.on_store is not None:
                    self.on_store(self, l, kids(s)[1], s)
            elif k == "CompoundStmt":
                self.bind_block(s, conditional)
            elif k == "IfStmt":
                for c in kids(s)[1:]:
                    if isinstance(c, dict) and c.get("kind"):
                        self.bind_block({"inner": [c]}, True)
            elif k == "ReturnStmt" and self.on_return is not None and kids(s):
                self.on_return(self, kids(s)[0], s)
