"""A small abstract interpreter over the clang AST of *pure* helper functions.

It evaluates one function (or one expression) for one *cell* of a finite
partition of its inputs.  Symbolic inputs are SymVal objects carrying a
representative value; every comparison a SymVal takes part in is logged, and
the caller verifies afterwards that the partition it enumerated makes each
logged comparison uniform on each cell (so that evaluating the representative
is exact for the whole cell).  Anything outside the supported subset raises
AnalysisBroken - the engine refuses rather than guesses.

Supported: literals, enum constants, const globals, parameters/locals, member
chains (as named symbols), unary - ! ~ +, binary arithmetic/relational/logical,
?:, casts, if / switch / return / local declarations and assignments, calls to
functions with bodies in the same AST (interpreted recursively), abs/min/max.
"""
from .astq import kids, strip, qt, dqt, canon, if_parts, walk
from .extract import AnalysisBroken


class Unsupported(AnalysisBroken):
    pass


class SymVal:
    """A symbolic integer input x with a representative value.  The value denoted is
           b + (|s*x + a|  if ab else  s*x + a)          with s in {+1,-1}
    so sign flips, shifts by concrete integers and one abs() keep the value a simple function of x whose
    comparisons against constants have known critical points (crit())."""
    __slots__ = ("v", "sym", "log", "group", "s", "a", "ab", "b")

    def __init__(self, v, sym, log, form="id", group=None, off=0, s=None, a=0, ab=False, b=0):
        self.v, self.sym, self.log, self.group = v, sym, log, group
        if s is None:
            s = -1 if form == "neg" else 1
            ab = (form == "abs")
            b = off
        self.s, self.a, self.ab, self.b = s, a, ab, b

    @property
    def form(self):
        return "abs" if self.ab else ("id" if self.s == 1 else "neg")

    @property
    def off(self):
        return self.a + self.b

    @property
    def plain(self):
        return not self.ab and self.a == 0 and self.b == 0

    def crit(self, c):
        """Constants k such that (value op c) can only change truth value where x crosses k."""
        if not self.ab:
            return [self.s * (c - self.a - self.b)]
        k = c - self.b
        return [self.s * (k - self.a), self.s * (-k - self.a)]

    def shifted(self, c):
        return SymVal(self.v + c, self.sym, self.log, group=self.group, s=self.s, a=self.a, ab=self.ab, b=self.b + c)

    def negated(self):
        if self.ab:
            raise Unsupported("negation of an absolute value")
        return SymVal(-self.v, self.sym, self.log, group=self.group, s=-self.s, a=-(self.a + self.b), ab=False, b=0)

    def absolute(self):
        if self.ab:
            if self.b == 0:
                return self
            raise Unsupported("abs of a shifted absolute value")
        return SymVal(abs(self.v), self.sym, self.log, group=self.group, s=self.s, a=self.a + self.b, ab=True, b=0)

    def __repr__(self):
        return "Sym(%s:%s=%r)" % (self.sym, self.form, self.v)


class Obj:
    """A struct-like value with named fields (for locals such as UInt128Struct or iterators)."""

    def __init__(self, **kw):
        self.f = dict(kw)


class Ref:
    """Address of a named object whose members live in the environment under the prefix `name`."""
    __slots__ = ("name",)

    def __init__(self, name):
        self.name = name

    def __repr__(self):
        return "Ref(%s)" % self.name

    def __eq__(self, o):
        return isinstance(o, Ref) and o.name == self.name

    def __hash__(self):
        return hash(self.name)


class _Return(Exception):
    def __init__(self, v):
        self.v = v


class _Continue(Exception):
    pass


class _Break(Exception):
    pass


def _raw(x):
    return x.v if isinstance(x, SymVal) else x


class Interp:
    def __init__(self, db, env=None, log=None, call_hook=None, max_depth=12, effect_names=()):
        self.db = db
        self.env = dict(env or {})     # symbol key (canon string) -> value
        self.log = log if log is not None else []
        self.call_hook = call_hook      # (name, args, node) -> value or NotImplemented
        self.effects = []               # calls evaluated for effect: (name, [args])
        self.effect_names = set(effect_names)
        self.depth = 0
        self.max_depth = max_depth

    # -- enums ------------------------------------------------------------
    def enum_value(self, decl_id, name):
        ev = getattr(self.db, "_enum_vals", None)
        if ev is None:
            ev = {}
            for t in self.db.tops:
                for x in walk(t):
                    if x.get("kind") == "EnumDecl":
                        cur = -1
                        for c in kids(x):
                            if c.get("kind") != "EnumConstantDecl":
                                continue
                            init = [y for y in walk(c) if y.get("kind") in ("ConstantExpr", "IntegerLiteral") and "value" in y]
                            if init:
                                cur = int(init[0]["value"])
                            else:
                                cur += 1
                            ev[c["id"]] = cur
            self.db._enum_vals = ev
        if decl_id not in ev:
            raise Unsupported("enumerator %s not found" % name)
        return ev[decl_id]

    # -- comparison logging ---------------------------------------------------
    def _cmp(self, op, a, b, node):
        sa, sb = isinstance(a, SymVal), isinstance(b, SymVal)
        if sa and sb:
            if not (a.plain and b.plain) and not (a.group == "tri" and b.group == "tri"):
                raise Unsupported("comparison of two transformed symbolic values at line %s" % node.get("line"))
            self.log.append((op, ("sym", a.sym, a.group, None, a.form), ("sym", b.sym, b.group, None, b.form), node.get("line")))
        elif sa or sb:
            sv, cv = (a, b) if sa else (b, a)
            c = _raw(cv)
            if isinstance(c, bool):
                c = int(c)
            if c is None or not isinstance(c, (int, float)):
                raise Unsupported("symbolic value compared with a non-number at line %s" % node.get("line"))
            self.log.append((op, ("sym", sv.sym, sv.group, sv.crit(c), sv.form), ("const", c), node.get("line")))
        x, y = _raw(a), _raw(b)
        if isinstance(x, Obj) or isinstance(y, Obj):
            raise Unsupported("comparison of aggregates at line %s" % node.get("line"))
        if op == "==":
            return x == y
        if op == "!=":
            return x != y
        if x is None or y is None or isinstance(x, Ref) or isinstance(y, Ref):
            raise Unsupported("ordering comparison of pointers / null at line %s" % node.get("line"))
        return {"<": x < y, ">": x > y, "<=": x <= y, ">=": x >= y}[op]

    # -- expressions ---------------------------------------------------------
    def ev(self, e):
        e = strip(e)
        k = e.get("kind")
        ks = kids(e)
        if k == "IntegerLiteral":
            return int(e["value"])
        if k == "FloatingLiteral":
            return float(e["value"])
        if k == "CXXBoolLiteralExpr":
            return bool(e["value"])
        if k in ("CXXNullPtrLiteralExpr", "GNUNullExpr"):
            return None
        if k == "DeclRefExpr":
            rd = e.get("referencedDecl", {})
            if rd.get("kind") == "EnumConstantDecl":
                return self.enum_value(rd["id"], rd.get("name"))
            key = rd.get("name")
            if key in self.env:
                return self.env[key]
            decl = self.db.by_id.get(rd.get("id"))
            if decl is not None and decl.get("kind") == "VarDecl" and ("const" in qt(decl) or decl.get("constexpr")):
                init = [c for c in kids(decl) if c.get("kind")]
                if init:
                    return self.ev(init[-1])
            if any(k2.startswith(key + ".") or k2.startswith(key + "->") for k2 in self.env):
                return Ref(key)
            raise Unsupported("free variable %s at line %s" % (key, e.get("line")))
        if k == "MemberExpr":
            key = self.member_key(e)
            if key in self.env:
                return self.env[key]
            try:
                base = self.ev(ks[0]) if ks else None
            except Unsupported:
                base = None
            if isinstance(base, Obj) and e.get("name") in base.f:
                return base.f[e.get("name")]
            raise Unsupported("unbound member %s at line %s" % (key, e.get("line")))
        if k == "CXXThisExpr":
            return self.env.get("this")
        if k == "UnaryOperator":
            op = e.get("opcode")
            if op in ("++", "--"):
                # increment / decrement of a plain number held in the environment
                old = self.ev(ks[0])
                if isinstance(old, bool) or not isinstance(old, (int, float)):
                    raise Unsupported("increment of a non-numeric value at line %s" % e.get("line"))
                new = old + (1 if op == "++" else -1)
                self._assign(ks[0], new)
                return old if e.get("isPostfix") else new
            if op == "&":
                return Ref(self.member_key(ks[0]))
            if op == "*":
                inner = strip(ks[0])
                key = self.member_key(inner)
                v0 = self.env.get(key)
                if isinstance(v0, Ref):
                    return v0
            v = self.ev(ks[0])
            if op == "-":
                if isinstance(v, SymVal):
                    return self.ev_neg(v)
                return -v
            if op == "!":
                if isinstance(v, SymVal):
                    return self._cmp("==", v, 0, e)
                return not v
            if op == "+":
                return v
            if op == "~":
                return ~_raw(v)
            if op == "*":
                return v
            raise Unsupported("unary %s" % op)
        if k == "BinaryOperator":
            op = e.get("opcode")
            if op == "&&":
                return bool(self._truth(self.ev(ks[0]), e)) and bool(self._truth(self.ev(ks[1]), e))
            if op == "||":
                return bool(self._truth(self.ev(ks[0]), e)) or bool(self._truth(self.ev(ks[1]), e))
            if op == ",":
                self.ev(ks[0])
                return self.ev(ks[1])
            if op == "=":
                v = self.ev(ks[1])
                self._assign(ks[0], v)
                return v
            a, b = self.ev(ks[0]), self.ev(ks[1])
            if op in ("<", ">", "<=", ">=", "==", "!="):
                return self._cmp(op, a, b, e)
            return self._arith(op, a, b, e)
        if k == "CompoundAssignOperator":
            op = e.get("opcode")[:-1]
            cur = self.ev(ks[0])
            v = self._arith(op, cur, self.ev(ks[1]), e)
            self._assign(ks[0], v)
            return v
        if k == "ConditionalOperator":
            c = self._truth(self.ev(ks[0]), e)
            return self.ev(ks[1]) if c else self.ev(ks[2])
        if k in ("CXXStaticCastExpr", "CStyleCastExpr", "CXXFunctionalCastExpr", "ImplicitCastExpr"):
            v = self.ev(ks[0])
            return self._cast(v, dqt(e), e)
        if k in ("CallExpr", "CXXMemberCallExpr", "CXXOperatorCallExpr"):
            return self._call(e)
        if k == "CXXConstructExpr" or k == "CXXTemporaryObjectExpr":
            if len(ks) == 1:
                return self.ev(ks[0])
            if self.call_hook:
                r = self.call_hook("ctor:" + dqt(e), [self.ev(a) for a in ks], e)
                if r is not NotImplemented:
                    return r
            raise Unsupported("constructor %s at line %s" % (dqt(e), e.get("line")))
        if k == "InitListExpr":
            return [self.ev(a) for a in ks]
        if k == "CXXDefaultArgExpr":
            raise Unsupported("default argument")
        if k == "SubstNonTypeTemplateParmExpr":
            return self.ev(ks[-1])
        raise Unsupported("expression kind %s at line %s" % (k, e.get("line")))

    def member_key(self, e):
        """Environment key of a member access, following local pointers/references to named objects."""
        e = strip(e)
        k = e.get("kind")
        if k == "MemberExpr":
            ks = kids(e)
            if not ks:
                return e.get("name")
            b = strip(ks[0])
            if b.get("kind") == "CXXThisExpr":
                return e.get("name")
            bk = self.member_key(b)
            # a local whose value is the address of a named object
            v = self.env.get(bk) if bk is not None else None
            if isinstance(v, Ref):
                return v.name + "." + e.get("name")
            return "%s%s%s" % (bk, "->" if e.get("isArrow") else ".", e.get("name"))
        if k == "DeclRefExpr":
            return e.get("referencedDecl", {}).get("name")
        if k == "UnaryOperator" and e.get("opcode") == "*":
            inner = self.member_key(kids(e)[0])
            v = self.env.get(inner)
            if isinstance(v, Ref):
                return v.name
            return inner
        if k == "CXXOperatorCallExpr":
            ks = kids(e)
            op = strip(ks[0]).get("referencedDecl", {}).get("name", "")
            if op in ("operator->", "operator*") and len(ks) == 2:
                return self.member_key(ks[1])
        return canon(e)

    def _truth(self, v, node):
        if isinstance(v, SymVal):
            return self._cmp("!=", v, 0, node)
        if isinstance(v, Obj):
            raise Unsupported("truth of aggregate")
        return bool(v)

    def _cast(self, v, ty, node):
        ty = (ty or "").replace("const ", "").strip()
        if isinstance(v, SymVal) or isinstance(v, Obj) or v is None:
            return v
        if ty == "bool":
            return bool(v)
        if ty in ("unsigned char", "uint8_t"):
            return int(v) & 0xFF
        if ty in ("unsigned long", "uint64_t", "size_t", "unsigned long long"):
            return int(v) & 0xFFFFFFFFFFFFFFFF if isinstance(v, (int, bool)) else v
        if ty in ("unsigned int", "uint32_t"):
            return int(v) & 0xFFFFFFFF
        if ty in ("int", "long", "long long", "int64_t", "short", "char", "signed char"):
            return int(v) if isinstance(v, (bool, int)) else (int(v) if isinstance(v, float) else v)
        if ty in ("double", "float", "long double"):
            return float(v) if isinstance(v, (int, bool, float)) else v
        return v

    def _arith(self, op, a, b, node):
        if op in ("+", "-") and (isinstance(a, SymVal) != isinstance(b, SymVal)):
            # shifting a symbolic value by a concrete integer keeps its comparisons analysable
            s_, c_ = (a, b) if isinstance(a, SymVal) else (b, a)
            if isinstance(c_, (int, bool)):
                c_ = int(c_)
                if op == "+":
                    return s_.shifted(c_)
                if isinstance(a, SymVal):
                    return s_.shifted(-c_)
                return s_.negated().shifted(c_)          # c - sym
        if isinstance(a, SymVal) or isinstance(b, SymVal):
            # only sign flips are allowed on symbolic values: sym * (+-1), (+-1) * sym
            if op == "*":
                for s, c in ((a, b), (b, a)):
                    if isinstance(s, SymVal) and not isinstance(c, SymVal) and c in (1, -1):
                        if c == 1:
                            return s
                        return s.negated()
                # product of two symbols from {-1,0,1}-valued domains is allowed when both are 'tri' groups
                if isinstance(a, SymVal) and isinstance(b, SymVal) and a.group == "tri" and b.group == "tri":
                    return SymVal(a.v * b.v, "%s*%s" % (a.sym, b.sym), a.log, group="tri")
            raise Unsupported("arithmetic %s on symbolic value at line %s" % (op, node.get("line")))
        if op == "+":
            return a + b
        if op == "-":
            return a - b
        if op == "*":
            return a * b
        if op == "/":
            if isinstance(a, int) and isinstance(b, int):
                if b == 0:
                    raise Unsupported("division by zero")
                q = abs(a) // abs(b)
                return q if (a >= 0) == (b >= 0) else -q
            return a / b
        if op == "%":
            return int(a - b * int(a / b))
        if op == "&":
            return a & b
        if op == "|":
            return a | b
        if op == "^":
            return a ^ b
        if op == "<<":
            return a << b
        if op == ">>":
            return a >> b
        raise Unsupported("operator %s" % op)

    def ev_neg(self, s):
        return s.negated()

    def _assign(self, lhs, v):
        l = strip(lhs)
        if l.get("kind") == "DeclRefExpr":
            self.env[l["referencedDecl"]["name"]] = v
            return
        if l.get("kind") == "MemberExpr":
            # opt-in heap mode: a store through a pointer that holds the address of a named object updates that object
            self.env[self.member_key(l) if getattr(self, "heap", False) else canon(l)] = v
            return
        raise Unsupported("assignment target %s" % l.get("kind"))

    # -- calls ---------------------------------------------------------------------
    def _call(self, e):
        db = self.db
        name, did, kind = db.callee(e)
        args_nodes = db.call_args(e)
        if e.get("kind") == "CXXOperatorCallExpr":
            args_nodes = kids(e)[1:]
        if name in ("abs", "fabs", "llabs", "labs"):
            v = self.ev(args_nodes[0])
            if isinstance(v, SymVal):
                return v.absolute()
            return abs(v)
        if name == "operator bool" and e.get("kind") == "CXXMemberCallExpr":
            mbase = db.member_base(e)
            return bool(self._truth(self.ev(mbase), e))
        if name in ("max", "min") and len(args_nodes) == 2:
            a, b = self.ev(args_nodes[0]), self.ev(args_nodes[1])
            lt = self._cmp("<", a, b, e)
            if name == "max":
                return b if lt else a
            return a if lt else b
        if self.call_hook:
            argv = None
            try:
                argv = [self.ev(a) for a in args_nodes]
            except Unsupported:
                argv = None
            r = self.call_hook(name, argv, e)
            if r is not NotImplemented:
                return r
        f = db.definition(did) if did else None
        if f is None or f.body is None:
            raise Unsupported("call to %s without a body at line %s" % (name, e.get("line")))
        if self.depth >= self.max_depth:
            raise Unsupported("call depth exceeded at %s" % name)
        # bind parameters
        sub = Interp(db, {}, self.log, self.call_hook, self.max_depth)
        sub.depth = self.depth + 1
        sub.effects = self.effects
        mb = None
        if e.get("kind") == "CXXMemberCallExpr":
            mb = db.member_base(e)
        elif e.get("kind") == "CXXOperatorCallExpr" and f.kind == "CXXMethodDecl" and args_nodes:
            mb = args_nodes[0]
            args_nodes = args_nodes[1:]
        if mb is not None or e.get("kind") == "CXXMemberCallExpr":
            # member functions read fields of *this through bare member names: map them
            if mb is not None:
                bkey = self.member_key(mb)
                for pre in (bkey + ".", bkey + "->"):
                    for k2, v2 in self.env.items():
                        if k2.startswith(pre):
                            sub.env[k2[len(pre):]] = v2
                if strip(mb).get("kind") == "CXXThisExpr":
                    sub.env.update(self.env)
        for p, a in zip(f.params, args_nodes):
            pname = p.get("name")
            pt = qt(p)
            a0 = strip(a)
            if "&" in pt or pt.rstrip().endswith("*"):
                # reference / pointer to an object: alias its member symbols
                akey = self.member_key(a0)
                try:
                    av = self.ev(a0)
                except Unsupported:
                    av = None
                if isinstance(av, Ref):
                    akey = av.name
                found = False
                for k2, v2 in self.env.items():
                    for sep in (".", "->"):
                        if k2.startswith(akey + sep):
                            sub.env[pname + ("->" if pt.rstrip().endswith("*") else ".") + k2[len(akey) + len(sep):]] = v2
                            found = True
                if found and pt.rstrip().endswith("*"):
                    sub.env.setdefault(pname, Ref(akey))
                if akey in self.env:
                    sub.env[pname] = self.env[akey]
                    found = True
                if not found:
                    try:
                        sub.env[pname] = self.ev(a)
                    except Unsupported:
                        pass
            else:
                sub.env[pname] = self.ev(a)
        return sub.run_function(f)

    # -- statements ------------------------------------------------------------------
    def run_function(self, f):
        try:
            self.exec(f.body)
        except _Return as r:
            return r.v
        return None

    def exec(self, s):
        if not s:
            return
        k = s.get("kind")
        ks = kids(s)
        if k == "CompoundStmt":
            for x in ks:
                self.exec(x)
            return
        if k == "ReturnStmt":
            raise _Return(self.ev(ks[0]) if ks else None)
        if k == "IfStmt":
            cond, then, els = if_parts(s)
            if self._truth(self.ev(cond), s):
                self.exec(then)
            elif els is not None:
                self.exec(els)
            return
        if k == "SwitchStmt":
            v = _raw(self.ev(ks[-2]))
            if isinstance(self.ev(ks[-2]), SymVal):
                raise Unsupported("switch on symbolic value")
            body = ks[-1]
            stmts = kids(body) if body.get("kind") == "CompoundStmt" else [body]
            # locate the entry label
            flat = []
            for x in stmts:
                flat.append(x)
            start = None
            default = None

            def labels(x):
                """yield (case value or 'default', first statement list) for nested labels"""
                out = []
                cur = x
                while cur.get("kind") in ("CaseStmt", "DefaultStmt"):
                    if cur.get("kind") == "CaseStmt":
                        out.append(_raw(self.ev(kids(cur)[0])))
                        rest = kids(cur)[1:]
                    else:
                        out.append("default")
                        rest = kids(cur)
                    if len(rest) == 1 and rest[0].get("kind") in ("CaseStmt", "DefaultStmt"):
                        cur = rest[0]
                        continue
                    return out, rest
                return out, [x]

            for i, x in enumerate(flat):
                if x.get("kind") in ("CaseStmt", "DefaultStmt"):
                    labs, _ = labels(x)
                    if v in labs and start is None:
                        start = i
                    if "default" in labs:
                        default = i
            if start is None:
                start = default
            if start is None:
                return
            try:
                for x in flat[start:]:
                    if x.get("kind") in ("CaseStmt", "DefaultStmt"):
                        _, rest = labels(x)
                        for y in rest:
                            self.exec(y)
                    else:
                        self.exec(x)
            except _Break:
                pass
            return
        if k == "BreakStmt":
            raise _Break()
        if k == "ContinueStmt":
            raise _Continue()
        if k == "DeclStmt":
            for d in ks:
                if d.get("kind") == "VarDecl":
                    init = [c for c in kids(d) if c.get("kind")]
                    if init:
                        self.env[d["name"]] = self.ev(init[-1])
                    else:
                        self.env[d["name"]] = None
            return
        if k == "NullStmt":
            return
        if k in ("WhileStmt", "DoStmt") and getattr(self, "concrete_loops", False):
            # opt-in: concrete execution of a while / do loop (all values concrete), bounded
            cond = ks[-2] if k == "WhileStmt" else ks[-1]
            body = ks[-1] if k == "WhileStmt" else ks[0]
            first = k == "DoStmt"
            for _ in range(256):
                if not first:
                    c = self.ev(cond)
                    if isinstance(c, SymVal):
                        raise Unsupported("loop with a symbolic condition at line %s" % s.get("line"))
                    if not self._truth(c, s):
                        return
                first = False
                try:
                    self.exec(body)
                except _Break:
                    return
                except _Continue:
                    pass
            raise Unsupported("loop bound exceeded at line %s" % s.get("line"))
        if k == "CXXForRangeStmt" and getattr(self, "concrete_loops", False):
            rng = None
            for s0 in ks[:-2]:
                if isinstance(s0, dict) and s0.get("kind") == "DeclStmt":
                    for d in kids(s0):
                        if d.get("kind") == "VarDecl" and d.get("name", "").startswith("__range"):
                            init = [c for c in kids(d) if isinstance(c, dict) and c.get("kind")]
                            rng = self.ev(init[-1]) if init else None
            var = None
            if isinstance(ks[-2], dict) and ks[-2].get("kind") == "DeclStmt":
                for d in kids(ks[-2]):
                    if d.get("kind") == "VarDecl":
                        var = d.get("name")
            if not isinstance(rng, (list, tuple)) or var is None:
                raise Unsupported("range-for over something that is not a concrete sequence at line %s" % s.get("line"))
            for item in rng:
                self.env[var] = item
                try:
                    self.exec(ks[-1])
                except _Break:
                    return
                except _Continue:
                    pass
            return
        if k == "ForStmt" and getattr(self, "concrete_loops", False) and len(s.get("inner", [])) == 5:
            init, condvar, cond, inc, body = s["inner"]
            if condvar and condvar.get("kind"):
                raise Unsupported("for loop with a condition variable at line %s" % s.get("line"))
            if init and init.get("kind"):
                self.exec(init)
            for _ in range(256):
                if cond and cond.get("kind"):
                    c = self.ev(cond)
                    if isinstance(c, SymVal):
                        raise Unsupported("loop with a symbolic condition at line %s" % s.get("line"))
                    if not self._truth(c, s):
                        return
                try:
                    self.exec(body)
                except _Break:
                    return
                except _Continue:
                    pass
                if inc and inc.get("kind"):
                    self.ev(inc)
            raise Unsupported("loop bound exceeded at line %s" % s.get("line"))
        if k in ("WhileStmt", "ForStmt", "DoStmt", "CXXForRangeStmt"):
            raise Unsupported("loop at line %s" % s.get("line"))
        # expression statement
        e = strip(s)
        if e.get("kind") in ("CallExpr", "CXXMemberCallExpr"):
            name, did, kind = self.db.callee(e)
            f = self.db.definition(did) if did else None
            if f is None or name in ("DoError",) or name in self.effect_names:
                argv = []
                for a in self.db.call_args(e):
                    try:
                        argv.append(self.ev(a))
                    except Unsupported:
                        argv.append(canon(a))
                self.effects.append((name, argv, e.get("line")))
                return
        self.ev(s)
