"""Fact extraction from /repo's *current working tree* (rebuilt on every run).

Two fact bases are produced per build configuration:

* astdb  - clang's type-checked AST of one "unity" translation unit that
           #includes the three library .cpp files and the driver TU
           (/verif/driver/all_api.cpp, which instantiates every public
           template and odr-uses the header-only API), dumped with
           -ast-dump=json -ast-dump-filter=Clipper2Lib:: and slimmed.
* irdb   - the -O0 -g LLVM IR of the same unity TU after mem2reg.

Nothing from the library is executed.  Results are cached under
/verif/.work/<sha256 of (sources, flags, extractor version)> so that the checks
of one tree share one extraction; the key is recomputed from the working tree on
every run, hence an edited tree is always re-extracted.
"""
import hashlib
import json
import os
import pickle
import re
import shutil
import subprocess
import sys
import time

REPO = os.environ.get("VERIF_REPO", "/repo")
VERIF = os.path.dirname(os.path.dirname(os.path.abspath(__file__)))
WORK = os.environ.get("VERIF_WORK") or os.path.join(VERIF, ".work")
INC = "CPP/Clipper2Lib/include"
HDR_DIR = INC + "/clipper2"
SRC_DIR = "CPP/Clipper2Lib/src"
SRCS = ["clipper.engine.cpp", "clipper.offset.cpp", "clipper.rectclip.cpp"]
HDRS = ["clipper.core.h", "clipper.engine.h", "clipper.offset.h", "clipper.rectclip.h",
        "clipper.h", "clipper.minkowski.h", "clipper.export.h", "clipper.version.h"]
DRIVER = os.path.join(VERIF, "driver", "all_api.cpp")
PORTABLE_H = os.path.join(VERIF, "driver", "force_portable.h")
EXTRACTOR_VERSION = "8"


class AnalysisBroken(Exception):
    """The analysis itself could not be carried out (exit code 2)."""


def repo_path(rel):
    return os.path.join(REPO, rel)


def read_cmake_switches():
    """The build's own switches, read back from CPP/CMakeLists.txt."""
    p = repo_path("CPP/CMakeLists.txt")
    try:
        txt = open(p).read()
    except OSError as e:
        raise AnalysisBroken("cannot read %s: %s" % (p, e))
    m = re.search(r"set\(CLIPPER2_MAX_DECIMAL_PRECISION\s+(-?\d+)", txt)
    if not m:
        raise AnalysisBroken("CLIPPER2_MAX_DECIMAL_PRECISION default not found in CMakeLists.txt")
    for sw in ("USINGZ", "CLIPPER2_HI_PRECISION"):
        if sw not in txt:
            raise AnalysisBroken("build switch %s no longer in CMakeLists.txt" % sw)
    return {"max_dec_precision": int(m.group(1))}


def config_flags(cfg):
    sw = read_cmake_switches()
    flags = ["-std=gnu++17", "-DCLIPPER2_MAX_DECIMAL_PRECISION=%d" % sw["max_dec_precision"],
             "-UNDEBUG", "-I" + repo_path(INC), "-Wno-everything"]
    for part in cfg.split("+"):
        if part == "base":
            pass
        elif part == "z":
            flags.append("-DUSINGZ")
        elif part == "hi":
            flags.append("-DCLIPPER2_HI_PRECISION=1")
        elif part == "noexc":
            flags.append("-fno-exceptions")
        elif part == "port":
            flags += ["-include", PORTABLE_H]
        else:
            raise AnalysisBroken("unknown configuration part %r" % part)
    return flags


def source_files():
    fs = [repo_path(SRC_DIR + "/" + s) for s in SRCS] + [repo_path(HDR_DIR + "/" + h) for h in HDRS]
    for f in fs:
        if not os.path.isfile(f):
            raise AnalysisBroken("source file missing: " + f)
    return fs


def tree_key(cfg, tu=None):
    h = hashlib.sha256()
    h.update(EXTRACTOR_VERSION.encode())
    h.update(cfg.encode())
    if tu:
        h.update(tu.encode())
        h.update(open(tu, "rb").read())
    for f in source_files() + [DRIVER, PORTABLE_H, repo_path("CPP/CMakeLists.txt")]:
        h.update(f.encode())
        h.update(open(f, "rb").read())
    return h.hexdigest()[:24]


def _purge_old(keep=40, min_age_s=1800):
    """Bound the cache: drop the oldest entries, but never one touched in the last half hour
    (another check - or a mutation control - may be using it right now)."""
    try:
        ents = [os.path.join(WORK, d) for d in os.listdir(WORK)]
    except OSError:
        return
    ents = [e for e in ents if os.path.isdir(e) and not e.endswith("scratch-violations")]
    ents.sort(key=lambda e: os.path.getmtime(e))
    now = time.time()
    for e in ents[:-keep]:
        try:
            if now - os.path.getmtime(e) > min_age_s:
                shutil.rmtree(e, ignore_errors=True)
        except OSError:
            pass


def unity_source(with_driver=True):
    lines = ['#include "%s"' % repo_path(SRC_DIR + "/" + s) for s in SRCS]
    if with_driver:
        lines.append('#include "%s"' % DRIVER)
    return "\n".join(lines) + "\n"


def _run(cmd, out=None, what=""):
    t = time.time()
    try:
        if out:
            with open(out, "wb") as fo:
                r = subprocess.run(cmd, stdout=fo, stderr=subprocess.PIPE)
        else:
            r = subprocess.run(cmd, stdout=subprocess.PIPE, stderr=subprocess.PIPE)
    except OSError as e:
        raise AnalysisBroken("cannot run %s: %s" % (cmd[0], e))
    if r.returncode != 0:
        err = r.stderr.decode(errors="replace")
        lines = [l for l in err.splitlines() if "error" in l][:8]
        raise AnalysisBroken("%s failed (rc=%d): %s" % (what or cmd[0], r.returncode, " | ".join(lines) or err[:600]))
    return time.time() - t


def workdir(cfg, tu=None):
    key = tree_key(cfg, tu)
    d = os.path.join(WORK, key)
    os.makedirs(d, exist_ok=True)
    os.utime(d, None)
    return d


# --------------------------------------------------------------------------
# AST
# --------------------------------------------------------------------------

_DROP_KEYS = {"definitionData", "includedFrom", "isUsed", "tokLen", "col", "presumedLine", "presumedFile"}


def _slim_stream(path):
    """Parse clang's stream of concatenated JSON objects, resolve file/line of
    every source location (clang delta-encodes them) and drop bulky keys."""
    s = open(path).read()
    dec = json.JSONDecoder()
    i, n = 0, len(s)
    tops = []
    while i < n:
        while i < n and s[i] in " \n\r\t":
            i += 1
        if i >= n:
            break
        o, i = dec.raw_decode(s, i)
        tops.append(o)
    del s
    for o in tops:
        _resolve_locs(o)
    return tops


def _resolve_locs(top):
    # iterative document-order walk; state = (last file, last line)
    state = {"file": None, "line": None}

    def bare(loc):
        if "file" in loc:
            state["file"] = loc["file"]
        if "line" in loc:
            state["line"] = loc["line"]
        return (state["file"], state["line"])

    def locof(d):
        # d is a 'loc' or range end: either bare or {spellingLoc, expansionLoc}
        if "offset" in d or "line" in d or "file" in d:
            return bare(d)
        res = None
        if "spellingLoc" in d:
            bare(d["spellingLoc"])
        if "expansionLoc" in d:
            res = bare(d["expansionLoc"])
        return res or (state["file"], state["line"])

    stack = [top]
    while stack:
        node = stack.pop()
        if isinstance(node, list):
            for x in reversed(node):
                stack.append(x)
            continue
        if not isinstance(node, dict):
            continue
        # document order: keys in order; loc and range come before inner
        if "loc" in node and isinstance(node["loc"], dict):
            f, l = locof(node["loc"])
            node["file"], node["line"] = f, l
            del node["loc"]
        if "range" in node and isinstance(node["range"], dict):
            r = node["range"]
            fb, lb = locof(r.get("begin", {}))
            fe, le = locof(r.get("end", {}))
            node.setdefault("file", fb)
            node["l0"], node["l1"] = lb, le
            if node.get("line") is None:
                node["line"] = lb
            del node["range"]
        for k in list(node.keys()):
            if k in _DROP_KEYS:
                del node[k]
        if "inner" in node:
            node["inner"] = [c for c in node["inner"] if not (isinstance(c, dict) and str(c.get("kind", "")).endswith("Comment"))]
        children = []
        for k, v in node.items():
            if k == "inner":
                continue
            if isinstance(v, (dict, list)) and k not in ("type", "referencedDecl", "referencedMemberDecl", "foundReferencedDecl"):
                children.append(v)
        if "inner" in node:
            children.append(node["inner"])
        for c in reversed(children):
            stack.append(c)


def _write_tu(d, tu):
    src = os.path.join(d, "unity.cpp")
    with open(src, "w") as f:
        if tu:
            f.write('#include "%s"\n' % tu)
        else:
            f.write(unity_source())
    return src


def ast(cfg, tu=None):
    """Return the slimmed list of top-level Clipper2Lib declarations for cfg.
    tu=None analyses the library (unity TU); otherwise `tu` is a self-contained
    control translation unit kept under /verif/driver/controls."""
    d = workdir(cfg, tu)
    pk = os.path.join(d, "ast.pickle")
    if os.path.isfile(pk):
        try:
            with open(pk, "rb") as f:
                return pickle.load(f)
        except Exception:
            pass
    src = _write_tu(d, tu)
    raw = os.path.join(d, "ast.json")
    cmd = ["clang++"] + config_flags(cfg) + ["-fsyntax-only", "-Xclang", "-ast-dump=json",
                                              "-Xclang", "-ast-dump-filter=Clipper2Lib::", src]
    _run(cmd, out=raw, what="clang AST dump [%s]" % cfg)
    tops = _slim_stream(raw)
    os.unlink(raw)
    if len(tops) < (300 if not tu else 50):
        raise AnalysisBroken("AST dump for %s has only %d top-level declarations" % (cfg, len(tops)))
    with open(pk + ".tmp", "wb") as f:
        pickle.dump(tops, f, protocol=pickle.HIGHEST_PROTOCOL)
    os.replace(pk + ".tmp", pk)
    _purge_old()
    return tops


# --------------------------------------------------------------------------
# IR
# --------------------------------------------------------------------------

def ir_path(cfg, tu=None):
    """Path of the mem2reg'd textual LLVM IR of the unity TU for cfg."""
    d = workdir(cfg, tu)
    out = os.path.join(d, "unity.m2r.ll")
    if os.path.isfile(out) and os.path.getsize(out) > 1000:
        return out
    src = _write_tu(d, tu)
    ll = os.path.join(d, "unity.ll")
    cmd = ["clang++"] + config_flags(cfg) + ["-O0", "-Xclang", "-disable-O0-optnone", "-g", "-S",
                                              "-emit-llvm", src, "-o", ll]
    _run(cmd, what="clang IR [%s]" % cfg)
    _run(["opt-14", "-S", "-passes=mem2reg", ll, "-o", out + ".tmp"], what="opt mem2reg [%s]" % cfg)
    os.replace(out + ".tmp", out)
    os.unlink(ll)
    _purge_old()
    return out


def syntax_check(cfg, strict=False):
    """Compile the unity TU with the build's warning flags (used by controls)."""
    d = workdir(cfg)
    src = os.path.join(d, "unity.cpp")
    with open(src, "w") as f:
        f.write(unity_source())
    cmd = ["clang++"] + config_flags(cfg) + ["-fsyntax-only", src]
    _run(cmd, what="syntax check")


if __name__ == "__main__":
    cfg = sys.argv[1] if len(sys.argv) > 1 else "base"
    t = time.time()
    a = ast(cfg)
    print("ast", cfg, len(a), "tops", round(time.time() - t, 2), "s")
    t = time.time()
    p = ir_path(cfg)
    print("ir", p, round(time.time() - t, 2), "s")
