"""Forward dataflow over clang's *structured* AST (no goto / try in this code base).

The client supplies a lattice (join), a transfer function for atomic
statements/expressions and, optionally, a refinement for branch conditions.
The walker handles sequencing, if/else, switch (with fall-through), the four
loop forms (fix-point at the loop head), break/continue/return and the
short-circuit operators in conditions.  `goto`, `try` and labels make the run
analysis-broken rather than being guessed at.
"""
from .astq import kids, strip, if_parts
from .extract import AnalysisBroken

UNSUPPORTED = ("GotoStmt", "IndirectGotoStmt", "LabelStmt", "CXXTryStmt", "CXXCatchStmt", "SEHTryStmt", "CoroutineBodyStmt")


class Client:
    """Override what you need.  States must be immutable values (or treated as such)."""

    def join(self, a, b):
        raise NotImplementedError

    def equal(self, a, b):
        return a == b

    def stmt(self, node, st):
        """Transfer for an atomic statement or a full expression evaluated for effect."""
        return st

    def cond_atom(self, expr, st):
        """(state if expr is true, state if expr is false) for a condition without && || !."""
        s = self.stmt(expr, st)
        return s, s

    def on_return(self, node, st):
        pass

    def on_exit(self, st):
        """Fall-through off the end of the analysed body."""
        pass


class _Ctx:
    __slots__ = ("breaks", "continues")

    def __init__(self):
        self.breaks = []
        self.continues = []


class Walker:
    def __init__(self, client):
        self.c = client
        self.loops = []

    # -- helpers ----------------------------------------------------------
    def _join_all(self, states):
        states = [s for s in states if s is not None]
        if not states:
            return None
        r = states[0]
        for s in states[1:]:
            r = self.c.join(r, s)
        return r

    def cond(self, e, st):
        """Returns (state_true, state_false); either may be None if st is None."""
        if st is None:
            return None, None
        e0 = strip(e)
        k = e0.get("kind")
        if k == "BinaryOperator" and e0.get("opcode") == "&&":
            a, b = kids(e0)
            t1, f1 = self.cond(a, st)
            t2, f2 = self.cond(b, t1)
            return t2, self._join_all([f1, f2])
        if k == "BinaryOperator" and e0.get("opcode") == "||":
            a, b = kids(e0)
            t1, f1 = self.cond(a, st)
            t2, f2 = self.cond(b, f1)
            return self._join_all([t1, t2]), f2
        if k == "UnaryOperator" and e0.get("opcode") == "!":
            t, f = self.cond(kids(e0)[0], st)
            return f, t
        return self.c.cond_atom(e0, st)

    # -- statements --------------------------------------------------------
    def run(self, n, st):
        """Process statement n from state st; returns the fall-through state or None."""
        if st is None or not n:
            return st
        k = n.get("kind")
        if k in UNSUPPORTED:
            raise AnalysisBroken("unsupported control construct %s at line %s" % (k, n.get("line")))
        if k == "CompoundStmt":
            for s in kids(n):
                st = self.run(s, st)
                if st is None:
                    # still scan the rest for unsupported constructs? unreachable code: ignore
                    break
            return st
        if k == "IfStmt":
            cond, then, els = if_parts(n)
            ks = kids(n)
            # init statement / condition variable
            idx = 0
            if n.get("hasInit"):
                st = self.run(ks[0], st)
                idx = 1
            if n.get("hasVar"):
                st = self.run(ks[idx], st)
            t, f = self.cond(cond, st)
            o1 = self.run(then, t)
            o2 = self.run(els, f) if els is not None else f
            return self._join_all([o1, o2])
        if k in ("WhileStmt", "ForStmt", "DoStmt", "CXXForRangeStmt"):
            return self._loop(n, st)
        if k == "SwitchStmt":
            return self._switch(n, st)
        if k == "ReturnStmt":
            ks = kids(n)
            if ks:
                st = self.c.stmt(ks[0], st)
            self.c.on_return(n, st)
            return None
        if k == "BreakStmt":
            if self.loops:
                self.loops[-1].breaks.append(st)
            return None
        if k == "ContinueStmt":
            for ctx in reversed(self.loops):
                if ctx.continues is not None:
                    ctx.continues.append(st)
                    break
            return None
        if k == "NullStmt":
            return st
        if k in ("CaseStmt", "DefaultStmt"):
            # reached by fall-through inside a compound that is a switch body handled in _switch
            for s in kids(n)[(1 if k == "CaseStmt" else 0):]:
                st = self.run(s, st)
            return st
        if k == "DeclStmt":
            return self.c.stmt(n, st)
        if k == "AttributedStmt":
            return self.run(kids(n)[-1], st)
        # expression statement
        e = strip(n)
        if e.get("kind") == "CXXThrowExpr":
            st = self.c.stmt(n, st)
            return None
        return self.c.stmt(n, st)

    def _loop(self, n, st):
        k = n.get("kind")
        ks = kids(n)
        ctx = _Ctx()
        if k == "ForStmt":
            init, _, cond, inc, body = (ks + [None] * 5)[:5]
            if init:
                st = self.run(init, st)
        elif k == "WhileStmt":
            init, inc = None, None
            cond, body = ks[-2], ks[-1]
        elif k == "DoStmt":
            init, inc = None, None
            body, cond = ks[0], ks[1]
        else:  # CXXForRangeStmt: [init?, range decl, begin decl, end decl, cond, inc, loopvar decl, body]
            body = ks[-1]
            loopvar = ks[-2]
            for s in ks[:-2]:
                if s and s.get("kind") == "DeclStmt":
                    st = self.run(s, st)
            cond, inc, init = None, None, None
        head = st
        exit_states = []
        for _ in range(40):
            self.loops.append(ctx)
            ctx.breaks, ctx.continues = [], []
            if k == "DoStmt":
                b = self.run(body, head)
                b = self._join_all([b] + ctx.continues)
                t, f = self.cond(cond, b) if cond and b is not None else (b, b)
                back = t
                exit_here = [f]
            elif k == "CXXForRangeStmt":
                s_in = self.c.stmt(loopvar, head) if loopvar else head
                b = self.run(body, s_in)
                back = self._join_all([b] + ctx.continues)
                exit_here = [head]
            else:
                if cond and cond.get("kind"):
                    t, f = self.cond(cond, head)
                else:
                    t, f = head, None   # for(;;)
                b = self.run(body, t)
                b = self._join_all([b] + ctx.continues)
                if inc and inc.get("kind") and b is not None:
                    b = self.c.stmt(inc, b)
                back = b
                exit_here = [f]
            self.loops.pop()
            exit_states = exit_here + list(ctx.breaks)
            new_head = self._join_all([st if k != "DoStmt" else st, back]) if back is not None else head
            if k == "DoStmt":
                new_head = self._join_all([st, back]) if back is not None else st
            if new_head is None or self.c.equal(new_head, head):
                break
            head = new_head
        else:
            raise AnalysisBroken("loop fix-point did not converge at line %s" % n.get("line"))
        return self._join_all(exit_states)

    def _switch(self, n, st):
        ks = kids(n)
        cond = ks[-2] if len(ks) >= 2 else None
        body = ks[-1]
        if cond is not None:
            st = self.c.stmt(cond, st)
        ctx = _Ctx()
        ctx.continues = None  # 'continue' belongs to an enclosing loop
        self.loops.append(ctx)
        cur = None
        has_default = False
        stmts = kids(body) if body.get("kind") == "CompoundStmt" else [body]
        for s in stmts:
            kk = s.get("kind")
            if kk in ("CaseStmt", "DefaultStmt"):
                if kk == "DefaultStmt":
                    has_default = True
                entry = self._join_all([cur, st])
                inner = s
                # nested case labels: case A: case B: stmt
                while True:
                    sub = kids(inner)[(1 if inner.get("kind") == "CaseStmt" else 0):]
                    if len(sub) == 1 and sub[0].get("kind") in ("CaseStmt", "DefaultStmt"):
                        inner = sub[0]
                        if inner.get("kind") == "DefaultStmt":
                            has_default = True
                        continue
                    break
                cur = entry
                for x in sub:
                    cur = self.run(x, cur)
            else:
                cur = self.run(s, cur)
        self.loops.pop()
        outs = [cur] + ctx.breaks
        if not has_default:
            outs.append(st)
        return self._join_all(outs)

    def function(self, body, st):
        out = self.run(body, st)
        if out is not None:
            self.c.on_exit(out)
        return out
