// Forces the portable (non-__int128) branch of ProductsAreEqual /
// CrossProductSign to be compiled, so that it can be type-checked and analysed.
// GCC/Clang on 64-bit targets never compile that branch otherwise.
#include <cstdint>
#undef UINTPTR_MAX
#define UINTPTR_MAX 0
