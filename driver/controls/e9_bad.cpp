// Positive control for engine E9 (never part of the library): every construct below must be reported.
#include "clipper2/clipper.h"
#include <new>

namespace Clipper2Lib {

// GUARD.nonempty: first element of an input container without a size test
inline Point64 ControlFirstPoint(const Path64& path)
{
  return path[0];
}

// INT64.product: coordinate product in signed 64-bit arithmetic
inline double ControlCross(const Point64& a, const Point64& b)
{
  return static_cast<double>(a.x * b.y - a.y * b.x);
}

// ALLOC.noexcept: allocation in a destructor, a handler, and a nothrow new
struct ControlHolder {
  std::vector<int> log_;
  ~ControlHolder() { log_.push_back(1); }
};

inline int* ControlSwallow()
{
  try { return new int[10]; } catch (...) { return nullptr; }
}

inline int* ControlNothrow()
{
  return new (std::nothrow) int[10];
}

} // namespace

namespace verif_driver_control {
void use() { Clipper2Lib::ControlHolder h; (void)h; }
void* const table[] = { (void*)&Clipper2Lib::ControlFirstPoint, (void*)&Clipper2Lib::ControlCross, (void*)&Clipper2Lib::ControlSwallow,
  (void*)&Clipper2Lib::ControlNothrow, (void*)&use };
}
