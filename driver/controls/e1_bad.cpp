// Positive control for engine E1 (never part of the library, never linked):
// each construct below must be reported by the matching rule on every run,
// otherwise the rule is blind and the check exits 2.
#include "clipper2/clipper.h"
#include <cstdlib>
#include <unordered_map>

namespace Clipper2Lib {

static std::vector<int> control_scratch;          // R1.global-write (mutable global, written below)

int ControlLocalStatic(int x)
{
  static int calls = 0;                           // R1.local-static
  calls += x;
  control_scratch.push_back(calls);               // R1.global-write
  return calls;
}

void ControlVertexWrite(Active& e)
{
  e.vertex_top->flags = VertexFlags::Empty;       // R2.vertex-write
}

int ControlRand()
{
  return std::rand();                             // R3.extern
}

bool ControlPointerOrder(const Active* a, const Active* b)
{
  return a < b;                                   // DET.pointer-order
}

} // namespace

namespace verif_driver_control {
void* const table[] = { (void*)&Clipper2Lib::ControlLocalStatic, (void*)&Clipper2Lib::ControlVertexWrite,
  (void*)&Clipper2Lib::ControlRand, (void*)&Clipper2Lib::ControlPointerOrder };
}
