// Driver translation unit for the static checks in /verif.
// It is never linked or run: it exists so that clang type-checks (and, for the
// IR route, code-generates) every header-only / template part of the public
// API in one unit.  Explicit instantiations give the analyser concrete bodies.
#include "clipper2/clipper.h"
#include "clipper2/clipper.export.h"

namespace Clipper2Lib {

// ---- path utilities (clipper.h / clipper.core.h) ---------------------------
template Path<int64_t> SimplifyPath<int64_t>(const Path<int64_t>&, double, bool);
template Path<double>  SimplifyPath<double>(const Path<double>&, double, bool);
template Paths<int64_t> SimplifyPaths<int64_t>(const Paths<int64_t>&, double, bool);
template Paths<double>  SimplifyPaths<double>(const Paths<double>&, double, bool);
template void RDP<int64_t>(const Path<int64_t>, std::size_t, std::size_t, double, std::vector<bool>&);
template void RDP<double>(const Path<double>, std::size_t, std::size_t, double, std::vector<bool>&);
template Path<int64_t> RamerDouglasPeucker<int64_t>(const Path<int64_t>&, double);
template Path<double>  RamerDouglasPeucker<double>(const Path<double>&, double);
template Paths<int64_t> RamerDouglasPeucker<int64_t>(const Paths<int64_t>&, double);
template Paths<double>  RamerDouglasPeucker<double>(const Paths<double>&, double);
template Path<int64_t> Ellipse<int64_t>(const Point<int64_t>&, double, double, size_t);
template Path<double>  Ellipse<double>(const Point<double>&, double, double, size_t);
template Path<int64_t> Ellipse<int64_t>(const Rect<int64_t>&, size_t);
template Path<double>  Ellipse<double>(const Rect<double>&, size_t);
template double Length<int64_t>(const Path<int64_t>&, bool);
template double Length<double>(const Path<double>&, bool);
template double Distance<int64_t>(const Point<int64_t>, const Point<int64_t>);
template bool NearCollinear<int64_t>(const Point<int64_t>&, const Point<int64_t>&, const Point<int64_t>&, double);
template Path<int64_t> TranslatePath<int64_t>(const Path<int64_t>&, int64_t, int64_t);
template Path<double>  TranslatePath<double>(const Path<double>&, double, double);
template Paths<int64_t> TranslatePaths<int64_t>(const Paths<int64_t>&, int64_t, int64_t);
template Paths<double>  TranslatePaths<double>(const Paths<double>&, double, double);
template Path<int64_t> StripNearEqual<int64_t>(const Path<int64_t>&, double, bool);
template Path<double>  StripNearEqual<double>(const Path<double>&, double, bool);
template Paths<int64_t> StripNearEqual<int64_t>(const Paths<int64_t>&, double, bool);
template Paths<double>  StripNearEqual<double>(const Paths<double>&, double, bool);
template void StripDuplicates<int64_t>(Path<int64_t>&, bool);
template void StripDuplicates<double>(Path<double>&, bool);
template void StripDuplicates<int64_t>(Paths<int64_t>&, bool);
template void StripDuplicates<double>(Paths<double>&, bool);
template Rect<int64_t> GetBounds<int64_t>(const Path<int64_t>&);
template Rect<double>  GetBounds<double>(const Path<double>&);
template Rect<int64_t> GetBounds<int64_t>(const Paths<int64_t>&);
template Rect<double>  GetBounds<double>(const Paths<double>&);
template Rect<double>  GetBounds<double, int64_t>(const Path<int64_t>&);
template Rect<double>  GetBounds<double, int64_t>(const Paths<int64_t>&);
template Rect<double>  GetBounds<double, double>(const Paths<double>&);
template double Area<int64_t>(const Path<int64_t>&);
template double Area<double>(const Path<double>&);
template double Area<int64_t>(const Paths<int64_t>&);
template double Area<double>(const Paths<double>&);
template bool IsPositive<int64_t>(const Path<int64_t>&);
template bool IsPositive<double>(const Path<double>&);
template PointInPolygonResult PointInPolygon<int64_t>(const Point<int64_t>&, const Path<int64_t>&);
template PointInPolygonResult PointInPolygon<double>(const Point<double>&, const Path<double>&);
template bool GetSegmentIntersectPt<int64_t>(const Point<int64_t>&, const Point<int64_t>&, const Point<int64_t>&, const Point<int64_t>&, Point<int64_t>&);
template bool GetSegmentIntersectPt<double>(const Point<double>&, const Point<double>&, const Point<double>&, const Point<double>&, Point<double>&);
template Point<int64_t> GetClosestPointOnSegment<int64_t>(const Point<int64_t>&, const Point<int64_t>&, const Point<int64_t>&);
template int CrossProductSign<int64_t>(const Point<int64_t>&, const Point<int64_t>&, const Point<int64_t>&);
template bool IsCollinear<int64_t>(const Point<int64_t>&, const Point<int64_t>&, const Point<int64_t>&);
template double CrossProduct<int64_t>(const Point<int64_t>&, const Point<int64_t>&, const Point<int64_t>&);
template double CrossProduct<double>(const Point<double>&, const Point<double>&);
template double DotProduct<int64_t>(const Point<int64_t>&, const Point<int64_t>&, const Point<int64_t>&);
template double DotProduct<double>(const Point<double>&, const Point<double>&);
template double PerpendicDistFromLineSqrd<int64_t>(const Point<int64_t>&, const Point<int64_t>&, const Point<int64_t>&);
template double PerpendicDistFromLineSqrd<double>(const Point<double>&, const Point<double>&, const Point<double>&);

// ---- scaling ----------------------------------------------------------------
template Path<int64_t> ScalePath<int64_t, double>(const Path<double>&, double, double, int&);
template Path<double>  ScalePath<double, int64_t>(const Path<int64_t>&, double, double, int&);
template Path<int64_t> ScalePath<int64_t, double>(const Path<double>&, double, int&);
template Path<double>  ScalePath<double, int64_t>(const Path<int64_t>&, double, int&);
template Paths<int64_t> ScalePaths<int64_t, double>(const Paths<double>&, double, double, int&);
template Paths<double>  ScalePaths<double, int64_t>(const Paths<int64_t>&, double, double, int&);
template Paths<int64_t> ScalePaths<int64_t, double>(const Paths<double>&, double, int&);
template Paths<double>  ScalePaths<double, int64_t>(const Paths<int64_t>&, double, int&);
template Rect<int64_t> ScaleRect<int64_t, double>(const Rect<double>&, double);
template Path<int64_t> TransformPath<int64_t, double>(const Path<double>&);
template Paths<int64_t> TransformPaths<int64_t, double>(const Paths<double>&);

// ---- MakePath ------------------------------------------------------------------
template Path64 MakePath<int, true>(const std::vector<int>&);
template Path64 MakePath<int64_t, true>(const std::vector<int64_t>&);
template PathD MakePathD<double, true>(const std::vector<double>&);
template PathD MakePathD<int, true>(const std::vector<int>&);

// ---- export-layer templates --------------------------------------------------------
template int64_t* CreateCPathsFromPathsT<int64_t>(const Paths<int64_t>&);
template Path<int64_t> ConvertCPathToPathT<int64_t>(int64_t*);
template Path<double> ConvertCPathToPathT<double>(double*);
template Paths<int64_t> ConvertCPathsToPathsT<int64_t>(int64_t*);
template Paths<double> ConvertCPathsToPathsT<double>(double*);
template void GetPathCountAndCPathsArrayLen<int64_t>(const Paths<int64_t>&, size_t&, size_t&);
template void GetPathCountAndCPathsArrayLen<double>(const Paths<double>&, size_t&, size_t&);

} // namespace Clipper2Lib

// odr-use of the non-template inline API so that IR is emitted for it
namespace verif_driver {
using namespace Clipper2Lib;
void* const api_table[] = {
  (void*)static_cast<Paths64(*)(ClipType, FillRule, const Paths64&, const Paths64&)>(&BooleanOp),
  (void*)static_cast<void(*)(ClipType, FillRule, const Paths64&, const Paths64&, PolyTree64&)>(&BooleanOp),
  (void*)static_cast<PathsD(*)(ClipType, FillRule, const PathsD&, const PathsD&, int)>(&BooleanOp),
  (void*)static_cast<void(*)(ClipType, FillRule, const PathsD&, const PathsD&, PolyTreeD&, int)>(&BooleanOp),
  (void*)static_cast<Paths64(*)(const Paths64&, const Paths64&, FillRule)>(&Intersect),
  (void*)static_cast<PathsD(*)(const PathsD&, const PathsD&, FillRule, int)>(&Intersect),
  (void*)static_cast<Paths64(*)(const Paths64&, const Paths64&, FillRule)>(&Union),
  (void*)static_cast<PathsD(*)(const PathsD&, const PathsD&, FillRule, int)>(&Union),
  (void*)static_cast<Paths64(*)(const Paths64&, FillRule)>(&Union),
  (void*)static_cast<PathsD(*)(const PathsD&, FillRule, int)>(&Union),
  (void*)static_cast<Paths64(*)(const Paths64&, const Paths64&, FillRule)>(&Difference),
  (void*)static_cast<PathsD(*)(const PathsD&, const PathsD&, FillRule, int)>(&Difference),
  (void*)static_cast<Paths64(*)(const Paths64&, const Paths64&, FillRule)>(&Xor),
  (void*)static_cast<PathsD(*)(const PathsD&, const PathsD&, FillRule, int)>(&Xor),
  (void*)static_cast<Paths64(*)(const Paths64&, double, JoinType, EndType, double, double)>(&InflatePaths),
  (void*)static_cast<PathsD(*)(const PathsD&, double, JoinType, EndType, double, int, double)>(&InflatePaths),
  (void*)static_cast<Paths64(*)(const Rect64&, const Paths64&)>(&RectClip),
  (void*)static_cast<Paths64(*)(const Rect64&, const Path64&)>(&RectClip),
  (void*)static_cast<PathsD(*)(const RectD&, const PathsD&, int)>(&RectClip),
  (void*)static_cast<PathsD(*)(const RectD&, const PathD&, int)>(&RectClip),
  (void*)static_cast<Paths64(*)(const Rect64&, const Paths64&)>(&RectClipLines),
  (void*)static_cast<Paths64(*)(const Rect64&, const Path64&)>(&RectClipLines),
  (void*)static_cast<PathsD(*)(const RectD&, const PathsD&, int)>(&RectClipLines),
  (void*)static_cast<PathsD(*)(const RectD&, const PathD&, int)>(&RectClipLines),
  (void*)static_cast<Path64(*)(const Path64&, bool)>(&TrimCollinear),
  (void*)static_cast<PathD(*)(const PathD&, int, bool)>(&TrimCollinear),
  (void*)static_cast<Paths64(*)(const Path64&, const Path64&, bool)>(&MinkowskiSum),
  (void*)static_cast<PathsD(*)(const PathD&, const PathD&, bool, int)>(&MinkowskiSum),
  (void*)static_cast<Paths64(*)(const Path64&, const Path64&, bool)>(&MinkowskiDiff),
  (void*)static_cast<PathsD(*)(const PathD&, const PathD&, bool, int)>(&MinkowskiDiff),
  (void*)static_cast<Paths64(*)(const PolyTree64&)>(&PolyTreeToPaths64),
  (void*)static_cast<PathsD(*)(const PolyTreeD&)>(&PolyTreeToPathsD),
  (void*)static_cast<bool(*)(const PolyTree64&)>(&CheckPolytreeFullyContainsChildren),
  (void*)static_cast<Path64(*)(const Path64&, int64_t, int64_t)>(&TranslatePath),
  (void*)static_cast<Paths64(*)(const Paths64&, int64_t, int64_t)>(&TranslatePaths),
};

// odr-use of the public member functions that are defined inline in headers
void use_members()
{
  Clipper64 c64; ClipperD cd(2); ClipperOffset co; 
  Paths64 p64, o64; PathsD pd, od; PolyTree64 t64; PolyTreeD td;
  c64.AddSubject(p64); c64.AddOpenSubject(p64); c64.AddClip(p64);
  c64.Execute(ClipType::Union, FillRule::NonZero, p64);
  c64.Execute(ClipType::Union, FillRule::NonZero, p64, o64);
  c64.Execute(ClipType::Union, FillRule::NonZero, t64);
  c64.Execute(ClipType::Union, FillRule::NonZero, t64, o64);
  c64.PreserveCollinear(true); c64.ReverseSolution(true); c64.Clear();
  cd.AddSubject(pd); cd.AddOpenSubject(pd); cd.AddClip(pd);
  cd.Execute(ClipType::Union, FillRule::NonZero, pd);
  cd.Execute(ClipType::Union, FillRule::NonZero, pd, od);
  cd.Execute(ClipType::Union, FillRule::NonZero, td);
  cd.Execute(ClipType::Union, FillRule::NonZero, td, od);
  co.AddPaths(p64, JoinType::Round, EndType::Polygon);
  co.Execute(1.0, p64); co.Execute(1.0, t64);
  co.MiterLimit(2.0); co.ArcTolerance(0.0); co.PreserveCollinear(false); co.ReverseSolution(false);
  co.SetDeltaCallback(nullptr); co.Clear();
  (void)t64.Area(); (void)td.Area(); (void)t64.Level(); (void)t64.IsHole();
  ReuseableDataContainer64 rdc; rdc.AddPaths(p64, PathType::Subject, false); c64.AddReuseableData(rdc);
#ifdef USINGZ
  c64.SetZCallback(nullptr); cd.SetZCallback(nullptr); co.SetZCallback(nullptr);
#endif
}
} // namespace verif_driver
