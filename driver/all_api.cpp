// Driver translation unit for the static checks in /verif.
// It is never linked or run: it exists so that clang type-checks (and, for the
// IR route, code-generates) every header-only / template part of the public
// API in one unit.  Uses (calls) of every template give the analyser concrete bodies.
#include "clipper2/clipper.h"
#include "clipper2/clipper.export.h"

// Everything is instantiated by *use* (calls with arguments of the right types), never by explicit instantiation or by
// casting to an exact function-pointer type: a call keeps compiling when a parameter changes between by-value and
// by-reference, gains a default argument or a cv-qualifier, so such edits to the library do not break the extraction.
namespace verif_driver {
using namespace Clipper2Lib;

void use_templates()
{
  Path64 p64; PathD pd; Paths64 pp64; PathsD ppd; Point64 pt64; PointD ptd; Rect64 r64; RectD rd;
  std::vector<bool> flags; int ec = 0; double dbl = 0; size_t n1 = 0, n2 = 0; int64_t i64 = 0;
  // ---- path utilities (clipper.h / clipper.core.h) ---------------------------
  (void)SimplifyPath(p64, 1.0, true); (void)SimplifyPath(pd, 1.0, true);
  (void)SimplifyPaths(pp64, 1.0, true); (void)SimplifyPaths(ppd, 1.0, true);
  RDP(p64, n1, n2, 1.0, flags); RDP(pd, n1, n2, 1.0, flags);
  (void)RamerDouglasPeucker(p64, 1.0); (void)RamerDouglasPeucker(pd, 1.0);
  (void)RamerDouglasPeucker(pp64, 1.0); (void)RamerDouglasPeucker(ppd, 1.0);
  (void)Ellipse(pt64, 1.0, 1.0, n1); (void)Ellipse(ptd, 1.0, 1.0, n1);
  (void)Ellipse(r64, n1); (void)Ellipse(rd, n1);
  (void)Length(p64, true); (void)Length(pd, true);
  (void)Distance(pt64, pt64); (void)NearCollinear(pt64, pt64, pt64, 1.0);
  (void)TranslatePath(p64, i64, i64); (void)TranslatePath(pd, dbl, dbl);
  (void)TranslatePaths(pp64, i64, i64); (void)TranslatePaths(ppd, dbl, dbl);
  (void)StripNearEqual(p64, 1.0, true); (void)StripNearEqual(pd, 1.0, true);
  (void)StripNearEqual(pp64, 1.0, true); (void)StripNearEqual(ppd, 1.0, true);
  StripDuplicates(p64, true); StripDuplicates(pd, true); StripDuplicates(pp64, true); StripDuplicates(ppd, true);
  (void)GetBounds(p64); (void)GetBounds(pd); (void)GetBounds(pp64); (void)GetBounds(ppd);
  (void)GetBounds<double, int64_t>(p64); (void)GetBounds<double, int64_t>(pp64); (void)GetBounds<double, double>(ppd);
  (void)Area(p64); (void)Area(pd); (void)Area(pp64); (void)Area(ppd);
  (void)IsPositive(p64); (void)IsPositive(pd);
  (void)PointInPolygon(pt64, p64); (void)PointInPolygon(ptd, pd);
  (void)GetSegmentIntersectPt(pt64, pt64, pt64, pt64, pt64); (void)GetSegmentIntersectPt(ptd, ptd, ptd, ptd, ptd);
  (void)GetClosestPointOnSegment(pt64, pt64, pt64);
  (void)CrossProductSign(pt64, pt64, pt64); (void)IsCollinear(pt64, pt64, pt64);
  (void)CrossProduct(pt64, pt64, pt64); (void)CrossProduct(ptd, ptd);
  (void)DotProduct(pt64, pt64, pt64); (void)DotProduct(ptd, ptd);
  (void)PerpendicDistFromLineSqrd(pt64, pt64, pt64); (void)PerpendicDistFromLineSqrd(ptd, ptd, ptd);
  (void)(pt64 == pt64); (void)(pt64 != pt64); (void)(ptd == ptd); (void)(ptd != ptd);
  // ---- scaling ----------------------------------------------------------------
  (void)ScalePath<int64_t, double>(pd, dbl, dbl, ec); (void)ScalePath<double, int64_t>(p64, dbl, dbl, ec);
  (void)ScalePath<int64_t, double>(pd, dbl, ec); (void)ScalePath<double, int64_t>(p64, dbl, ec);
  (void)ScalePaths<int64_t, double>(ppd, dbl, dbl, ec); (void)ScalePaths<double, int64_t>(pp64, dbl, dbl, ec);
  (void)ScalePaths<int64_t, double>(ppd, dbl, ec); (void)ScalePaths<double, int64_t>(pp64, dbl, ec);
  (void)ScaleRect<int64_t, double>(rd, dbl);
  (void)TransformPath<int64_t, double>(pd); (void)TransformPaths<int64_t, double>(ppd);
  // ---- MakePath ------------------------------------------------------------------
  std::vector<int> vi; std::vector<int64_t> vl; std::vector<double> vd;
  (void)MakePath(vi); (void)MakePath(vl); (void)MakePathD(vd); (void)MakePathD(vi);
  // ---- export-layer templates --------------------------------------------------------
  int64_t* c64 = nullptr; double* cd = nullptr;
  (void)CreateCPathsFromPathsT<int64_t>(pp64);
  (void)ConvertCPathToPathT<int64_t>(c64); (void)ConvertCPathToPathT<double>(cd);
  (void)ConvertCPathsToPathsT<int64_t>(c64); (void)ConvertCPathsToPathsT<double>(cd);
  GetPathCountAndCPathsArrayLen(pp64, n1, n2); GetPathCountAndCPathsArrayLen(ppd, n1, n2);
}

// use of the non-template inline API so that bodies are analysed and IR is emitted for them
void use_free_functions()
{
  Path64 p64; PathD pd; Paths64 pp64; PathsD ppd; Rect64 r64; RectD rd; PolyTree64 t64; PolyTreeD td; int64_t i64 = 0;
  (void)BooleanOp(ClipType::Union, FillRule::NonZero, pp64, pp64);
  BooleanOp(ClipType::Union, FillRule::NonZero, pp64, pp64, t64);
  (void)BooleanOp(ClipType::Union, FillRule::NonZero, ppd, ppd, 2);
  BooleanOp(ClipType::Union, FillRule::NonZero, ppd, ppd, td, 2);
  (void)Intersect(pp64, pp64, FillRule::NonZero); (void)Intersect(ppd, ppd, FillRule::NonZero, 2);
  (void)Union(pp64, pp64, FillRule::NonZero); (void)Union(ppd, ppd, FillRule::NonZero, 2);
  (void)Union(pp64, FillRule::NonZero); (void)Union(ppd, FillRule::NonZero, 2);
  (void)Difference(pp64, pp64, FillRule::NonZero); (void)Difference(ppd, ppd, FillRule::NonZero, 2);
  (void)Xor(pp64, pp64, FillRule::NonZero); (void)Xor(ppd, ppd, FillRule::NonZero, 2);
  (void)InflatePaths(pp64, 1.0, JoinType::Round, EndType::Polygon, 2.0, 0.0);
  (void)InflatePaths(ppd, 1.0, JoinType::Round, EndType::Polygon, 2.0, 2, 0.0);
  (void)RectClip(r64, pp64); (void)RectClip(r64, p64); (void)RectClip(rd, ppd, 2); (void)RectClip(rd, pd, 2);
  (void)RectClipLines(r64, pp64); (void)RectClipLines(r64, p64); (void)RectClipLines(rd, ppd, 2); (void)RectClipLines(rd, pd, 2);
  (void)TrimCollinear(p64, false); (void)TrimCollinear(pd, 2, false);
  (void)MinkowskiSum(p64, p64, true); (void)MinkowskiSum(pd, pd, true, 2);
  (void)MinkowskiDiff(p64, p64, true); (void)MinkowskiDiff(pd, pd, true, 2);
  (void)PolyTreeToPaths64(t64); (void)PolyTreeToPathsD(td);
  (void)CheckPolytreeFullyContainsChildren(t64);
  (void)TranslatePath(p64, i64, i64); (void)TranslatePaths(pp64, i64, i64);
}

// odr-use of the public member functions that are defined inline in headers
void use_members()
{
  Clipper64 c64; ClipperD cd(2); ClipperOffset co; 
  Paths64 p64, o64; PathsD pd, od; PolyTree64 t64; PolyTreeD td;
  c64.AddSubject(p64); c64.AddOpenSubject(p64); c64.AddClip(p64);
  c64.Execute(ClipType::Union, FillRule::NonZero, p64);
  c64.Execute(ClipType::Union, FillRule::NonZero, p64, o64);
  c64.Execute(ClipType::Union, FillRule::NonZero, t64);
  c64.Execute(ClipType::Union, FillRule::NonZero, t64, o64);
  c64.PreserveCollinear(true); c64.ReverseSolution(true); c64.Clear();
  cd.AddSubject(pd); cd.AddOpenSubject(pd); cd.AddClip(pd);
  cd.Execute(ClipType::Union, FillRule::NonZero, pd);
  cd.Execute(ClipType::Union, FillRule::NonZero, pd, od);
  cd.Execute(ClipType::Union, FillRule::NonZero, td);
  cd.Execute(ClipType::Union, FillRule::NonZero, td, od);
  co.AddPaths(p64, JoinType::Round, EndType::Polygon);
  co.Execute(1.0, p64); co.Execute(1.0, t64);
  co.MiterLimit(2.0); co.ArcTolerance(0.0); co.PreserveCollinear(false); co.ReverseSolution(false);
  co.SetDeltaCallback(nullptr); co.Clear();
  (void)t64.Area(); (void)td.Area(); (void)t64.Level(); (void)t64.IsHole();
  ReuseableDataContainer64 rdc; rdc.AddPaths(p64, PathType::Subject, false); c64.AddReuseableData(rdc);
#ifdef USINGZ
  c64.SetZCallback(nullptr); cd.SetZCallback(nullptr); co.SetZCallback(nullptr);
#endif
}
} // namespace verif_driver
