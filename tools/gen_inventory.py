#!/usr/bin/env python3
"""Regenerate the rule-inventory table of DESIGN.md §9.2 from /verif/evidence/*.json (documentation helper, not a check)."""
import json
import os
VERIF = os.path.dirname(os.path.dirname(os.path.abspath(__file__)))
TIERS = {"C01": "base z / + hi z+hi", "C03": "base z / + hi noexc", "C04": "base z / + hi noexc", "C05": "base z / + hi", "C06": "base z", "C07": "base z",
         "C08": "base z", "C09": "base z", "C10": "base z / + hi noexc z+noexc", "C11": "base z noexc / + z+noexc hi", "C12": "base z / + hi noexc z+noexc",
         "C13": "base z", "C14": "base z / + hi z+hi noexc", "C15": "base<->z / + hi<->z+hi, noexc<->z+noexc", "C16": "base z / + hi noexc",
         "C17": "base z / + noexc z+noexc", "C18": "base port hi / + z port+z", "C19": "base z", "C20": "base z"}
p = os.path.join(VERIF, "DESIGN.md")
s = open(p).read()
a = s.index("| check | rules (instances")
b = s.index("(The table is generated from")
lines = ["| check | rules (instances, summed over the configurations of the tier that wrote the evidence) | configurations quick / thorough |",
         "|-------|--------------------------------------|---------------------------------|"]
for pid in sorted(TIERS):
    e = json.load(open(os.path.join(VERIF, "evidence", pid + ".json")))
    r = e["coverage"]["rules"]
    lines.append("| %s | %s | %s |" % (pid, " · ".join("%s (%d)" % (k, v["instances"]) for k, v in r.items()), TIERS[pid]))
s = s[:a] + "\n".join(lines) + "\n\n" + s[b:]
open(p, "w").write(s)
print("inventory regenerated for %d checks" % len(TIERS))
