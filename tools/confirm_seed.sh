#!/bin/bash
# usage: confirm_seed.sh <id> <property> "<extra g++ flags>" "<what it needs to manifest>"
# Independently confirms a seeded change produced by a sub-agent: applies /tmp/seed_out/<id>/patch.diff in a fresh scratch
# worktree of /repo (outside /repo and /verif), builds with the project's flags, runs the repository's test-suite, and runs
# the demonstration with and without the change.  On success stores patch.diff, demo.cpp and meta.json under /verif/seeded/<id>/.
set -u
ID=$1; PROP=$2; FLAGS=${3:-}; NEEDS=${4:-}
SRC=/tmp/seed_out/$ID
WT=$(mktemp -d /tmp/cs_$ID.XXXX); rmdir $WT
git -C /repo worktree add -q --detach $WT HEAD || exit 2
cleanup(){ git -C /repo worktree remove --force $WT 2>/dev/null; rm -rf $WT "$B" /tmp/cs_demo_$ID.*; }
trap cleanup EXIT
B=$(mktemp -d /tmp/cs_build_$ID.XXXX)
INC=$WT/CPP/Clipper2Lib/include; LIB="$WT/CPP/Clipper2Lib/src/clipper.engine.cpp $WT/CPP/Clipper2Lib/src/clipper.offset.cpp $WT/CPP/Clipper2Lib/src/clipper.rectclip.cpp"
# demo WITHOUT the change
g++ -std=c++17 -O1 $FLAGS -I$INC $SRC/demo.cpp $LIB -o /tmp/cs_demo_$ID.base -pthread 2>/tmp/cs_demo_$ID.err || { echo "demo does not compile without the change"; head -5 /tmp/cs_demo_$ID.err; exit 3; }
timeout 300 /tmp/cs_demo_$ID.base > /tmp/cs_demo_$ID.out0 2>&1; RC0=$?
git -C $WT apply $SRC/patch.diff || { echo "patch does not apply"; exit 3; }
g++ -std=c++17 -O1 $FLAGS -I$INC $SRC/demo.cpp $LIB -o /tmp/cs_demo_$ID.mut -pthread 2>/tmp/cs_demo_$ID.err || { echo "demo does not compile with the change"; head -5 /tmp/cs_demo_$ID.err; exit 3; }
timeout 300 /tmp/cs_demo_$ID.mut > /tmp/cs_demo_$ID.out1 2>&1; RC1=$?
GT=""; [ -d /root/miniconda/lib/cmake/GTest ] && GT="-DGTest_DIR=/root/miniconda/lib/cmake/GTest"
cmake -G Ninja -S $WT/CPP -B $B -DCMAKE_BUILD_TYPE=RelWithDebInfo -DUSE_EXTERNAL_GTEST=ON -DCLIPPER2_EXAMPLES=OFF $GT > $B/c.log 2>&1 && cmake --build $B -j16 > $B/b.log 2>&1
BUILD=$?
TESTS="build failed"
if [ $BUILD -eq 0 ]; then TESTS=$(ctest --test-dir $B -j8 --timeout 900 2>&1 | grep -E "tests passed|tests failed" | head -1); fi
echo "$ID: demo rc without=$RC0 with=$RC1 | build=$BUILD | $TESTS"
if [ $RC0 -eq 0 ] && [ $RC1 -ne 0 ] && [ $BUILD -eq 0 ] && echo "$TESTS" | grep -q "100% tests passed"; then
  mkdir -p /verif/seeded/$ID
  cp $SRC/patch.diff $SRC/demo.cpp /verif/seeded/$ID/
  [ -f $SRC/NOTES.md ] && cp $SRC/NOTES.md /verif/seeded/$ID/NOTES.md
  python3 - "$ID" "$PROP" "$FLAGS" "$NEEDS" "$RC0" "$RC1" "$TESTS" <<'PY'
import json,sys
ID,PROP,FLAGS,NEEDS,RC0,RC1,TESTS=sys.argv[1:8]
out1=open('/tmp/cs_demo_%s.out1'%ID,errors='replace').read()[-600:]
json.dump({"id":ID,"breaks_property":PROP,"needs_to_manifest":NEEDS,"demo_flags":FLAGS,
 "confirmed":{"method":"fresh scratch worktree of /repo HEAD; patch applied with git apply; project built with cmake/ninja (-Wall -Wextra -Wpedantic -Werror) and ctest run; demo compiled against the library sources with and without the patch",
   "demo_exit_without_change":int(RC0),"demo_exit_with_change":int(RC1),"ctest_with_change":TESTS,"demo_output_with_change_tail":out1}},
 open('/verif/seeded/%s/meta.json'%ID,'w'),indent=1)
PY
  echo "CONFIRMED -> /verif/seeded/$ID"
else
  echo "NOT CONFIRMED"; tail -3 /tmp/cs_demo_$ID.out0; tail -3 /tmp/cs_demo_$ID.out1
fi
