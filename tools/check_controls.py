#!/usr/bin/env python3
"""Maintenance aid: every mutation control's anchor text must occur exactly once in the file it edits on the current /repo tree
(a control whose anchor is missing is *skipped* at run time, by design, because the tree under analysis may have been edited)."""
import os
import sys
sys.path.insert(0, os.path.dirname(os.path.dirname(os.path.abspath(__file__))))
from vlib import controls

bad = 0
tot = 0
for pid, lst in controls.CONTROLS.items():
    for c in lst:
        tot += 1
        desc, rel, old = c[0], c[1], c[2]
        s = open(os.path.join("/repo", rel)).read()
        if s.count(old) != 1:
            bad += 1
            print("%s: anchor occurs %d times: %s" % (pid, s.count(old), desc))
print("%d controls, %d with a missing / ambiguous anchor" % (tot, bad))
sys.exit(1 if bad else 0)
