#!/bin/bash
# Runs the repository's own test-suite from /repo's working tree with the
# verification guard OFF (no hook is ever compiled in: the checks are static).
# Builds into a scratch directory outside /repo and /verif and removes it.
set -u
B=$(mktemp -d /tmp/clipper2_baseline.XXXXXX)
trap 'rm -rf "$B"' EXIT
GT=""
[ -d /root/miniconda/lib/cmake/GTest ] && GT="-DGTest_DIR=/root/miniconda/lib/cmake/GTest"
cmake -G Ninja -S /repo/CPP -B "$B" -DCMAKE_BUILD_TYPE=RelWithDebInfo -DUSE_EXTERNAL_GTEST=ON \
  -DCLIPPER2_EXAMPLES=OFF -DCLIPPER2_UTILS=ON -DCLIPPER2_TESTS=ON $GT > "$B/configure.log" 2>&1 || { cat "$B/configure.log"; exit 3; }
cmake --build "$B" -j16 > "$B/build.log" 2>&1 || { tail -50 "$B/build.log"; exit 4; }
ctest --test-dir "$B" -j8 --timeout 900 ${1:+--output-junit "$1"}
