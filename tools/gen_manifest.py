#!/usr/bin/env python3
"""Regenerates /verif/MANIFEST.json from the table below (single source of truth)."""
import json
import os
import sys

VERIF = os.path.dirname(os.path.dirname(os.path.abspath(__file__)))

CLAIMS = {
    "C14": dict(
        category="proof",
        text="Static proof of the structural clause: (R1) every static-storage variable of the library is const, has zero "
             "write sites (AST and IR agree) or is an allow-listed C-ABI slot; no function-local statics; (R2) only the "
             "path-loading functions store into Vertex objects and none is reachable from the execution/output phase; (R2b) "
             "ReuseableDataContainer64 has no mutable field and nothing outside its own methods stores through it; "
             "(R3) every external reachable from library code is in a frozen list of thread-safe functions; no "
             "pointer-order or hash-order dependence. Quantifies over all schedules because it shows there is no shared "
             "mutable location to race on.",
        note="Trusted: clang 14 AST/IR, libstdc++ per-object thread-safety, the external allow-list, user callbacks. "
             "Decides 'no mutable state outside caller-created objects'; equality with sequential results also needs C12.",
        technique="static analysis: AST + LLVM-IR global-state, store-site and call-graph reachability rules",
        design="§3 E1",
        engine="E1"),
}

CLAIMS["C01"] = dict(
    category="other",
    text="Static decision of the decision logic of the sweep on closed paths, by abstract interpretation of the AST over finite, verified-uniform "
         "partitions against oracles derived from the definition of fill rules and set operations: (1) the contribution table "
         "IsContributingClosed (1300 reachable cells); (2) the winding-count update when two edges cross (14348 cells) and the count given to an "
         "inserted edge; (3) IntersectEdges as a whole: from every consistent state the contour calls it makes leave exactly the edges on the "
         "solution boundary carrying output (11076 cells); (4) no product is formed in signed 64-bit arithmetic and no single-precision floating point is used (coordinates up to 2^61); (5) an "
         "intersection corrected into its scanbeam stays on an edge (x recomputed at the clamped y); (6) whoever may modify the local-minima list "
         "invalidates its 'sorted' flag; (7) GetSegmentIntersectPt, in both precision build options, stores - as a real-number formula - the "
         "crossing point of the two lines, and TopX is the x of the line through bot and top at the given y, shortcuts included (identities of "
         "polynomial normal forms, engine E14); (8) Intersect / Union / Difference / Xor / BooleanOp return what the sweep produced, never an input; (9) GetClosestPointOnSegment (the "
         "correction used for nearly horizontal edges) is the foot of the perpendicular; (10) every Execute re-arms succeeded_ before the sweep loop reads it. "
         "A wrong reachable cell is a wrong region for some input in general position; the "
         "converse (the behaviour of C01) is NOT decided.",
    note="Assumes the code's stated invariants for wind_cnt / wind_cnt2 and that AEL neighbours are the geometric neighbours. AEL ordering, "
         "intersection-point computation, joins, horizontals, output assembly and tolerances are outside the clause.",
    technique="static analysis: abstract interpretation of decision code (AST) over finite partitions with logged-comparison uniformity proof, "
              "compared with definitional oracles",
    design="§3 E3, §4 C01, §9", engine="E3")
CLAIMS["C11"] = dict(
    category="other",
    text="Static error-discipline rules over every public entry in builds with and without exceptions: validate-before-use of every precision "
         "parameter (path rule, interprocedural through validating callees), exact validator tables, range test before every double->int64 scaling "
         "of caller data (and the bounds it tests take every vertex into account), exact C-boundary rejection sets evaluated over the whole uint8_t / "
         "precision domain by interpreting the function prefix, NoClip early return, succeeded_ re-armed by every Execute, and (no-exceptions "
         "build) error codes consumed before a result is produced (no call site resolves to a function that ends with an unread, possibly set "
         "local error code; a valueless return on the error path has emptied every result-typed output parameter) and every DoError paired with an "
         "error-code update; every result container an Execute overload receives is emptied on every path (the NoClip and error returns included). Genuine defects found are "
         "listed in known_findings.json (D8-D10) or repaired by fix: commits (D7, D13). The rectangle ScalePaths tests against the coordinate range is always GetBounds of the whole input. MakePath / MakePathD from a vector report exactly the odd counts (R8.odd-count).",
    note="Does not decide that Execute returns true for all geometry (AddLocalMaxPoly mismatch reachability). Parameters are recognised by name "
         "(precision, decimal_prec, decimalPlaces) and int type.",
    technique="static analysis: structured-CFG path rules + AST interpretation of validation conditions (Engler-style error discipline)",
    design="§3 E5, §4 C11", engine="E5")

CLAIMS["C12"] = dict(
    category="other",
    text="Static member-state hygiene over all call histories: effects of every statement of ClipperBase/Clipper64/ClipperD, ClipperOffset, "
         "RectClip64 and RectClipLines64 on their members are abstracted from the AST and decided by forward must-analyses with interprocedural "
         "summaries and configuration splitting: scratch members are defined before use in every Execute (DBU); scratch containers empty at entry "
         "are empty at every normal exit of every public method (CLEAN, induction over histories); Clear() resets what Add* modifies (CLEAR); "
         "nothing is carried between iterations of the per-group / per-path loops (LOOP); no pointer-order dependence; shared Vertex data is "
         "written only while loading paths; no Execute writes a configuration member (CONFIG.preserved); whoever modifies the local-minima list "
         "invalidates its sorted flag (SORTED.invalidate); every output container is emptied before anything is added (OUTPUT.reset). A history can "
         "only act through a surviving member, so this quantifies over all sequences. New members are classified by what the code does with them.",
    note="Checks the repository's own idiom (Reset at entry, CleanUp at exit) - a sufficient condition: deleting a redundant reset is reported. "
         "Exceptional exits (bad_alloc mid-operation) are not covered. std:: container methods are modelled by a frozen table.",
    technique="static analysis: field-effect abstraction of the AST + forward must-dataflow (def-before-use, container typestate, loop-carried state)",
    design="§3 E2, §4 C12", engine="E2")
CLAIMS["C07"] = dict(
    category="other",
    text="Three necessary structural clauses decided statically: (i) no member/outer local written while offsetting one path or group is read "
         "while offsetting the next (E2 loop rule, with and without delta callback); (ii) outside the EndType::Polygon branch delta is only read "
         "through abs(), hence +delta == -delta by construction; (iii) start/end cap dispatch tables extracted by interpreting both switches for "
         "every value of the per-path end type end_type_ (not the group's own field) equal Butt->DoBevel(i,i), Round->DoRound(i,i,PI), Square->DoSquare(i,i) and agree at both ends; (iv) Group::Group strips a "
         "closing vertex only for the closed end types Polygon and Joined (for open ends it is the end point of the last segment); (v) every function of "
         "the offsetter computes the same x/y with and without USINGZ (sibling identity modulo Z erasure); (vi) the miter threshold derived from "
         "MiterLimit is re-derived by every Execute before a join reads it (the join factor bound is the one of the limit in force); (vii) the join "
         "formulas (unit normal, sin/cos of the turn, miter, bevel, the squaring line of the square join, round start and rotation step, perpendicular offset) equal the textbook "
         "formulas as polynomial normal forms (engine E14) and OffsetPoint dispatches every convex vertex to the construction of its JoinType, "
         "mitering exactly while the miter length is within the limit; (viii) the length below which the bisector of a square join counts as zero is "
         "not above the shortest bisector the dispatch lets through (relation between two literals read from the code). Every path through OffsetPolygon / OffsetOpenJoined / OffsetOpenPath appends a contour (EMIT.every-path). InflatePaths binds its options to the ClipperOffset options of the same name (OPTIONS.forwarded).",
    note="Stroke geometry, cap extents, circles for points are NOT decided. Stale normals passed to a delta callback (D12) are reported under C12.",
    technique="static analysis: loop-carried-state dataflow + AST rule on reads of delta + interpreted dispatch tables",
    design="§3 E2/E3, §4 C07", engine="E2")

CLAIMS["C17"] = dict(
    category="other",
    text="Static agreement rules for the C export layer: (LAYOUT) the element-count shape c0 + SUM(c1 + DIM*N) of every writer, reader and sizing "
         "function of the CPaths / CPath / CPolyPath layouts is extracted from the AST and must agree, with EXPORT_VERTEX_DIMENSIONALITY 2 and 3; the "
         "stored count counts exactly the written records; the first element is the allocated length; (FORWARD) each of the 76 exported parameters "
         "reaches the native parameter of its meaning, resolved by declaration (constructor slots judged by parameter name; a list of paths goes to a "
         "paths parameter, not path by path), none of another meaning, "
         "none dropped; (SCALE) dimensional analysis of the D exports; (Z-CODEC, USINGZ) every store of Z into a slot and every load from it is a "
         "bit copy (Reinterpret or same type) so that writers and readers agree; (UNCONDITIONAL) whether a geometry input is handed to the native object depends on that input only; (CURSOR) every call of a writer advances the caller's write position "
         "(cursor by reference, or returned position stored back). A layout mismatch is simultaneously a round-trip failure and an out-of-bounds access. The exported twins (RectClip / RectClipLines, MinkowskiSum / MinkowskiDiff) call the native operation of their own name (FORWARD.native).",
    note="Does not decide that the native call returns the right result. Shapes outside the supported loop nest make the run analysis-broken (exit 2).",
    technique="static analysis: symbolic element-count shapes of marshalling code + parameter-flow forwarding table + dimensional analysis",
    design="§3 E4/E8, §4 C17", engine="E4")
CLAIMS["C16"] = dict(
    category="other",
    text="Static dimensional analysis of the floating-point API: in every function that derives a scale from a precision, and in ClipperD, each length "
         "(paths, rectangles, delta, arc tolerance) is S^1 at every integer-API argument and S^0 at every return; ClipperD's scale_/invScale_ wiring "
         "is as documented; double->int64 coordinate conversion happens only through std::round; no wrapper hands its own double argument back "
         "unrounded (one known finding, D17); every precision parameter is used for more than validation and no ClipperD is default-constructed "
         "where a precision was given; the D output builders equal their 64-bit siblings "
         "modulo de-scaling (sibling identity, engine E6). ScalePath / ScalePaths return the element-wise image of their input on every path that has not just reported an error (SCALE.total).",
    note="Bit-exact equality of results (floating-point evaluation order) and node-for-node tree shape beyond builder identity are NOT decided.",
    technique="static analysis: unit/dimension inference over the AST + sibling-identity alignment",
    design="§3 E8/E6, §4 C16", engine="E8")

CLAIMS["C05"] = dict(
    category="other",
    text="Static decision of necessary clauses: the open-path contribution table (IsContributingOpen) and the toggle condition applied where an "
         "open edge crosses a closed edge (prefix of IntersectEdges) are extracted by abstract interpretation over a verified-uniform partition and "
         "equal the definition on every reachable cell; AddPaths_ drops a trailing vertex equal to the first vertex of the same path only for closed "
         "paths; DoHorizontal keeps its end-of-segment tests active for a horizontal open end; BuildPath64 and BuildPathD treat open paths alike; the builders pass isOpen according to outrec->is_open and are "
         "handed a real open-solution object by every caller (a null one would send open records down the closed branch); an edge that stops "
         "contributing clears its output record's pointer to itself (front_edge iff IsFront), at all three sites; has_open_paths_ is only ever "
         "switched on where paths are added; the collinear / spike trimming of horizontals (TrimHorz) is only ever applied under a test that the edge is not open. The path builders' final filter discards only a closed three-point sliver (GUARD final-filter table).",
    note="Positions of the cuts, lengths and independence of the closed solution are NOT decided.",
    technique="static analysis: abstract interpretation of decision code over finite partitions + sibling identity",
    design="§3 E3/E6, §4 C05", engine="E3")
CLAIMS["C08"] = dict(
    category="other",
    text="Static decision of necessary clauses: Rect::Contains / Intersects / IsEmpty are exact on every weak ordering of rectangle and path bounds "
         "(3682 cells, exhaustive) and RectClip64::Execute uses them as 'outside -> nothing, inside -> the input path unchanged'; nothing written "
         "while clipping one path is read while clipping the next and the scratch containers are empty at every exit ('path by path'); GetLocation's "
         "25-cell table; the side arithmetic (GetAdjacentLocation, HeadingClockwise, AreOpposites, StartLocsAreClockwise) on its whole four-element "
         "domain; GetNextLocation's per-side dispatch on every ordering of the next vertex against the rectangle (first side crossed wins in the "
         "documented order); GetBounds considers every vertex for min and max; the segment scan starts at the first segment on every path; GetSegmentIntersection's touching cases store an end point that lies on both "
         "lines (engine E14) and answer 'touching' exactly when it lies strictly between the other segment's ends, whichever way the side runs "
         "(48 cells); GetIntersection reports the side the segment meets first for p in every side region and every possible (entry, exit) pair "
         "(76 cells); no point classification compares a coordinate of one axis with a bound of the other; the location RectClip64's scan starts with is the truth about "
         "the last vertex (729 scenarios of the prologue). When a path ends outside, the corner steps added to close it are those of one walk from the end region through start_locs_ to the first-crossing region (CORNER.chain, 1360 cases). Before the first crossing a segment that does not cross leaves the crossing marker at Inside (CROSSING.latched).",
    note="The location state machine, corner insertion and TidyEdges (the behaviour for crossing paths) are NOT decided.",
    technique="static analysis: abstract interpretation over orderings + loop-carried-state dataflow",
    design="§3 E3/E2, §4 C08", engine="E3")
CLAIMS["C09"] = dict(
    category="other",
    text="Static decision of necessary clauses only: GetLocation classifies a point correctly on all 25 orderings against the rectangle (what is "
         "added as 'inside' is inside); the bounding-box predicates are exact and RectClipLines64::Execute uses them as 'empty rectangle -> nothing, "
         "boxes disjoint -> skip', appending pieces path by path in the order found; the crossing dispatch of ExecuteInternal starts a new piece "
         "exactly where the polyline enters the rectangle (all 24 location pairs; the pass-through case takes its first crossing from the far "
         "end of the segment); nothing written while clipping one polyline is read while clipping the next; the cut itself, as a real-number formula: GetSegmentIntersectPt's "
         "point lies on both lines and GetSegmentIntersection's touching cases store an end point that lies on both lines (engine E14) and answer "
         "'touching' exactly when it lies strictly between the other segment's ends, whichever way the side runs (48 cells); GetIntersection reports the side met first (76 cells); GetNextLocation's table. The location the line scan starts with is the truth about the first vertex, and the whole path is copied only when no vertex is off the boundary (START.location). GetSegmentIntersectPt never mixes x and y quantities in sums, comparisons or stores (AXIS.homogeneous, default and high-precision variants).",
    note="Partial: which rectangle edge GetIntersection tries, rounding, GetNextLocation's scan, the vertex order inside a piece and every tolerance of "
         "the statement (1.5 / 1 / 2 units) are NOT decided - the numeric content of C09 is out of reach of static analysis here.",
    technique="static analysis: abstract interpretation over orderings and the Location enum + loop-carried-state dataflow",
    design="§3 E3/E2, §4 C09, §9.1", engine="E3")
CLAIMS["C13"] = dict(
    category="other",
    text="Static decision of necessary clauses: the extracted closed contribution table is symmetric under path reversal (Positive<->Negative with "
         "negated winding numbers) and under subject/clip exchange for Intersection, Union, Xor; LocMinSorter, IntersectListSort and HorzSegSorter are "
         "strict weak orders depending only on their keys (all triples over a domain realising every weak ordering); point equality means 'same x and "
         "y' (z ignored) so duplicate / closing vertices are recognised; the closing-vertex test compares with the first vertex of the same path; twin "
         "x/y locals read mirrored coordinates (transposition); no signed 64-bit products, no single-precision floating point (integer scaling); "
         "the cross-product predicates and the segment intersection are the textbook polynomials (engine E14), hence equivariant under "
         "translation, transposition and scaling as real-number formulas; the boolean convenience functions never hand a path parameter back as the result; every precision parameter "
         "reaches the scale / the ClipperD it is meant for (translation and integer scaling of decimal data); AddPaths_ carries no local from one "
         "path of a call to the next (path order). GetClosestPointOnSegment is its defining polynomial identity (POLY.measure). Paths added after an Execute are sorted in whatever the order they were added in (SORTED.invalidate). The high-precision intersection variant is read in the quick tier too (POLY.intersect, AXIS.homogeneous).",
    note="Permutation/rotation invariance of the sweep (IsValidAelOrder tie-breaking) and the algebraic identities are NOT decided.",
    technique="static analysis: table symmetries on the abstractly interpreted decision function + comparator axioms by exhaustive interpretation",
    design="§3 E3, §4 C13", engine="E3")
CLAIMS["C15"] = dict(
    category="other",
    text="Static sibling identity: each of ~500 functions of the USINGZ build equals the plain build's function after erasing Z-only constructs "
         "(aligned node by node; the plain build has no z member, so z cannot flow into x, y or control); USINGZ-only functions write only z; "
         "must-follow analysis: every vertex created at a crossing in IntersectEdges reaches SetZ on all paths; DoSplitOp calls the callback before "
         "storing the point; SetZ's decision table (end point z first, subject before clip, else DefaultZ); ClipperD's proxy callback follows the user's "
         "SetZCallback at every Execute (CheckCallback table, called before ExecuteInternal); a point that is only given new x and y "
         "(GetSegmentIntersectPt's out-parameter) is a local of the innermost enclosing loop, so it carries the default z; in the conversion layer (ScalePath(s), BuildPath64/D, PolyPath64/D, C "
         "converters) a vertex made from one vertex's x and y has a z argument; no path assigns such an out-parameter as a whole before giving it new x / y; no Execute overload writes the Z callback of a Clipper64 (a second operation on the same object sees the same callback).",
    note="Sufficient-condition check: a one-sided behaviour-preserving rewrite of an #ifdef branch is reported. Trusted: callbacks write only pt.z. "
         "NOT decided: that the vertex a callback saw survives CleanCollinear.",
    technique="static analysis: AST alignment modulo named patterns + forward may-pending dataflow + interpreted decision table",
    design="§3 E6/E7, §4 C15", engine="E6")
CLAIMS["C18"] = dict(
    category="other",
    text="Static decision of necessary clauses on both multiplication code paths (the portable one is forced into an analysed configuration): no "
         "floating-point expression in CrossProductSign / ProductsAreEqual / IsCollinear / TriSign / Multiply and products only in 128 bits; the "
         "portable sign logic equals sign(sign_ab*|ab| - sign_cd*|cd|) on every consistent cell; Multiply's partial sums cannot wrap (interval proof that follows branches and refines the operand intervals by their guards); "
         "no signed 64-bit product and no single-precision floating point anywhere; PointInPolygon's wrap-around predecessor is the container's last "
         "vertex on all reaching definitions and every cross product deciding a toggle is first tested for zero (IsOn); twin x/y locals (incl. the HI_PRECISION GetSegmentIntersectPt) read mirrored coordinates; "
         "engine E14 (identities of polynomial normal forms): the two compared products of CrossProductSign / IsCollinear / ProductsAreEqual differ by "
         "exactly the cross product, on both code paths (portable: magnitudes and signs of the same factors), the 128-bit tails return sign(ab-cd) / "
         "(ab==cd) on every ordering and no 128-bit value is narrowed; GetSegmentIntersectPt's result lies on both lines and 'parallel' is answered by an exact test of the "
         "direction cross product against zero (no tolerance); CrossProduct, DotProduct, DistanceSqr, PerpendicDistFromLineSqrd, GetClosestPointOnSegment equal "
         "their defining formulas; Multiply's returned {lo, hi} satisfies hi 2^64 + lo == a b identically (bit slices: lo_k(x) = x - 2^k hi_k(x)).",
    note="Floating-point rounding of the formulas, the clamping branches, PointInPolygon's numeric content and Area's loop are NOT decided.",
    technique="static analysis: type rule on the AST + abstract interpretation over sign/ordering cells + interval analysis",
    design="§3 E3, §4 C18", engine="E3")

CLAIMS["C03"] = dict(
    category="other",
    text="Static decision of the structural part for all inputs: every closed path is built by CleanCollinear -> BuildPath with reverse_solution_ "
         "(must-precede dataflow over all 7 builder call sites); CleanCollinear's removal condition table; BuildPath's degenerate-ring guard table and "
         "duplicate-skipping copy loop; option members written only by their setters; OutRec::path built only in CheckBounds; D builders equal 64 builders; "
         "IsCollinear / CrossProduct / DotProduct (the collinearity and spike tests) are the textbook polynomials (engine E14); the builders' index loops "
         "over outrec_list_ re-read its size, so rings split off while building are cleaned and emitted too; every method that can add local minima invalidates the sorted flag (minima popped out of order leave edges extended past their top vertex). The intersection routines subtract only coordinates, min / max choices or means of two from a coordinate before converting to double (ORIGIN.convex, both precision variants).",
    note="Bounding box, zero area, spikes, crossings, orientation-vs-nesting, collinearity of the result and idempotence under Union are NOT decided.",
    technique="static analysis: must-precede dataflow + interpreted condition tables + sibling identity",
    design="§3 E10/E3/E6, §4 C03", engine="E10")
CLAIMS["C04"] = dict(
    category="other",
    text="Static decision that the set of rings cannot depend on the output mode: paths and tree builders send closed and open contours through "
         "the same calls with the same arguments, and every branch on using_polytree_ writes only ownership fields (owner, splits, recursive_split, "
         "polypath, OutPt::outrec), callees included (effect confinement; one reasoned exception). Path1InsidePath2's vertex vote (step and verdict for every count: a lead of two is decisive, only an equivocal count uses the "
         "bounding-box midpoint); OutRec::splits lists only grow (never overwritten); Rect::Contains, the owner search's pre-filter, is closed "
         "inclusion on every ordering; the builders' index loops over outrec_list_ re-read its size (rings split off while building are emitted in both modes); whatever GetPrevHotEdge returns, the ring's tentative owner is "
         "assigned (SetOwner, or nullptr) on every path on which tree output is possible; PointInOpPolygon reports a vertex on an edge as IsOn "
         "wherever a cross product decides a toggle, and the shortcuts in front of it let every point within the edge's closed x-range through; SetOwner keeps the ownership forest a forest "
         "and never cuts the re-attached ring loose from what contained it (executed on all forests over four records). In tree mode every ring split off by DoSplitOp / ProcessHorzJoins is tied to its other half through a splits list (SPLIT.recorded). The PolyTreeD overloads work at the precision they are given (PRECISION.forwarded).",
    note="That the owners are right (containment, depth alternation, area equality) is NOT decided.",
    technique="static analysis: effect confinement of option-controlled regions + pipeline identity",
    design="§3 E10, §4 C04", engine="E10")
CLAIMS["C10"] = dict(
    category="other",
    text="Static decision of necessary clauses for all inputs: no self-recursive function copies a container per level or recurses before its own "
         "visited mark (this rule found, and since their repair proves the absence of, the quadratic-memory recursion of RDP and the unbounded "
         "recursion of CheckSplitOwner); non-emptiness guards on every first/last-element access to input containers, "
         "interprocedurally from the public entries (found and, since the repair, proves the absence of the empty-path crash in ClipperOffset); "
         "operator new unreachable from every destructor / noexcept function, no catch handler, no nothrow-new (so bad_alloc reaches the caller); no "
         "product in signed 64-bit arithmetic; output-iterator algorithms append or write to a destination constructed with the source's size(); loops that count an unsigned index down "
         "test it strictly; sort comparators are strict weak orders; edges handed to AddOutPt & co. carry output (HOT.guard); no "
         "pointer into RectClip's node store survives its reset; and, for the allocation-failure clause, every output-vertex ring is link-consistent "
         "at every statement that can throw and at every exit of the 14 functions that re-link rings (symbolic heap, all paths), and only "
         "provably orphaned vertices are deleted - which is what ~ClipperBase needs to free the rings after a std::bad_alloc. Every new kept in a local pointer is handed on, deleted or known null on every path to an exit (ALLOC.owned). BuildPath64/D reject a null ring before dereferencing it.",
    note="Termination, bounds of computed indices, lifetime of Active nodes, disjointness of the rings of different OutRecs, overflow of sums "
         "are NOT decided. LINK assumes distinct access paths denote distinct vertices.",
    technique="static analysis: size-fact dataflow with preconditions + IR call-graph reachability + type lint + comparator axioms + symbolic-heap "
              "path execution of ring-linking functions",
    design="§3 E9, §4 C10, §9.1 E13", engine="E9")
CLAIMS["C20"] = dict(
    category="other",
    text="Static decision of necessary clauses: TrimCollinear, SimplifyPath, RamerDouglasPeucker and StripNearEqual append only elements of the "
         "input (never a computed vertex), inside loops through forward-only cursors; keep/remove flags are monotone; StripDuplicates only erases; "
         "TrimCollinear's corner test is made against the last kept vertex; SimplifyPath's pinned end distances are never overwritten; every "
         "distance/epsilon comparison of SimplifyPath and RDP draws the line at 'removable iff distance <= epsilon'; GetBounds' min/max update table and sentinels (a maximum starts at lowest(), not at the smallest positive value); every argument bound to an epsilon / squared-epsilon parameter has that degree; RDP examines each sub-span exactly when it has an interior vertex; Ellipse and TranslatePath "
         "satisfy their defining formulas; the trailing-duplicate removal of a closed path (StripDuplicates, StripNearEqual) is a loop whose condition re-tests the new last point; "
         "PerpendicDistFromLineSqrd, DistanceSqr and IsCollinear are their defining polynomials (engine E14). "
         "The one flag-clearing site (RDP) is a genuine defect recorded as a known finding (D11). No product of coordinate differences is formed in int64 (INT64.product: Distance, Length, Area). Ellipse draws with radiusX and a positive radiusY, or returns the empty path (ELLIPSE.radii).",
    note="Epsilon guarantees, area preservation, idempotence and the exact corner set are NOT decided.",
    technique="static analysis: AST rules on result construction and flag assignments",
    design="§4 C20", engine="E11")

CLAIMS["C06"] = dict(
    category="other",
    text="The property is geometric and its distance clauses are NOT decided. Decided statically are the plumbing clauses that are necessary "
         "conditions of 'orientation of the input (and ReverseSolution) is preserved' and '|delta| < 0.5 leaves the region unchanged', and the "
         "formula / dispatch level of the joins: the "
         "clean-up union's 16-cell table (fill rule Negative iff paths reversed, output target, ReverseSolution(reverse_solution_ != "
         "paths_reversed), PreserveCollinear), the insignificant-delta shortcut, the sign of the group delta for every end type, the "
         "definition of a reversed group, the output target set by every Execute overload, closing-vertex stripping per end type, x/y identical "
         "with and without USINGZ in every offsetter function, the join formulas as polynomial normal forms and the join dispatch on convex "
         "vertices (Miter within the limit else Square; Round; Bevel; Square), no return before the clean-up union except on 'no input / no "
         "output / error', the caller's delta_ read only where the orientation-corrected group_delta_ is derived, the result container emptied before anything is added (also through the member pointer that aliases it), and "
         "independence of the groups of one ClipperOffset (loop-carried-state dataflow); tables extracted by interpreting the AST over the complete finite domain of the flags. The join dispatch is judged with the threshold the code itself stores for a given MiterLimit (the computing and the comparing site together). InflatePaths binds its options to the ClipperOffset options of the same name (OPTIONS.forwarded).",
    note="What the joined offset curves enclose - tolerance bands, the square join's corner construction (DoSquare), concave vertices, shrinking "
         "beyond the inradius - is NOT decided; the formulas are decided as real-number formulas, not their floating-point evaluation.",
    technique="static analysis: interpreted decision tables over complete finite flag domains + identities of polynomial normal forms",
    design="§4 C06, §9", engine="E12")
CLAIMS["C19"] = dict(
    category="other",
    text="The swept-region equality is geometric and NOT decided. Decided statically are structural necessary conditions of detail::Minkowski and "
         "its four wrappers: empty input returns empty before anything is indexed; sum adds / difference subtracts the pattern point; the path's "
         "closing edge is swept iff isClosed and every other edge always (whether or not an operand's last vertex repeats its first); quad corners; no continue jumps over the previous-cursor updates; every quad is made positively oriented before the NonZero union; wrappers pass the "
         "right flags and union on a clipper of their own; every call (recursion included) keeps pattern and path in their slots; PathD overloads scale in and out (dimensional analysis). Point::operator+ / operator- are the component-wise sum / difference in every build (MINK.point-ops).",
    note="That the union of the parallelograms equals the swept region within 2 units is NOT decided.",
    technique="static analysis: AST rules and small interpreted tables",
    design="§4 C19, §9", engine="E12")

NOT_APPLICABLE = {
    "C02": "exactness on degenerate rectilinear input is a runtime interplay of horizontal joins; no structural clause is a necessary condition (DESIGN §4)",
}

PENDING = {}


def main():
    props = [json.loads(l) for l in open(os.path.join(VERIF, "properties.jsonl"))]
    ids = [p["id"] for p in props]
    checks = []
    for pid in ids:
        c = CLAIMS.get(pid)
        if not c:
            continue
        checks.append({
            "property_id": pid,
            "quick_cmd": "python3 /verif/check.py %s --tier quick" % pid,
            "thorough_cmd": "python3 /verif/check.py %s --tier thorough" % pid,
            "evidence_file": "/verif/evidence/%s.json" % pid,
            "replay_cmd_template": "python3 /verif/check.py %s --replay {path}" % pid,
            "engine": c["engine"],
            "level_claimed": {"category": c["category"], "text": c["text"], "design_ref": c["design"]},
            "level_note": c["note"],
            "technique": c["technique"],
        })
    na = []
    for pid in ids:
        if pid in CLAIMS:
            continue
        reason = NOT_APPLICABLE.get(pid) or PENDING.get(pid) or "static check not yet built in this tree (see DESIGN.md §7)"
        na.append({"property_id": pid, "reason": reason})
    man = {
        "version": 1,
        "setup_cmd": "python3 -m compileall -q /verif/vlib /verif/check.py",
        "hooks": {
            "guard": "CLIPPER2_VERIF",
            "enable": "none needed: every check is a static analysis of /repo's source; no hook is compiled in",
            "baseline_off_cmd": "bash /verif/tools/baseline_off.sh",
            "source_commits": [],
            "add_only": True,
        },
        "engines": [
            {"name": "extract+astq+irdb", "path": "/verif/vlib", "serves_properties": sorted(CLAIMS),
             "kind_free_text": "fact extraction: clang -ast-dump=json and -O0 LLVM IR of a unity TU rebuilt from /repo on every run; Python query layers"},
            {"name": "E1", "path": "/verif/vlib/engines/e1_globals.py", "serves_properties": ["C14", "C12"],
             "kind_free_text": "global state, shared-data immutability, thread-safe externals, determinism lint"},
            {"name": "E2", "path": "/verif/vlib/engines/e2_state.py", "serves_properties": ["C12", "C07"],
             "kind_free_text": "member-state hygiene: def-before-use, clean-at-exit, Clear completeness, loop-carried state (AST effects + vlib/flow.py)"},
            {"name": "E9", "path": "/verif/vlib/engines/e9_safety.py", "serves_properties": ["C10", "C13", "C18"],
             "kind_free_text": "non-emptiness guards, allocation under noexcept, int64 products"},
            {"name": "E10", "path": "/verif/vlib/engines/e10_pipeline.py", "serves_properties": ["C03", "C04"],
             "kind_free_text": "must-precede, option plumbing, pipeline identity, effect confinement"},
            {"name": "E11", "path": "/verif/vlib/engines/e11_paths.py", "serves_properties": ["C20"],
             "kind_free_text": "subsequence-by-construction and monotone flags for the path utilities"},
            {"name": "E13", "path": "/verif/vlib/engines/e13_links.py", "serves_properties": ["C10"],
             "kind_free_text": "symbolic-heap execution of the ring-linking functions: link consistency at every throw point and exit"},
            {"name": "E14", "path": "/verif/vlib/engines/e14_poly.py", "serves_properties": ["C18", "C01", "C13", "C03", "C20", "C06", "C07"],
             "kind_free_text": "identities between polynomial normal forms of the numeric kernels (vlib/poly.py): intersection point, cross-product predicates, measurements"},
            {"name": "E12", "path": "/verif/vlib/engines/e12_plumbing.py", "serves_properties": ["C06", "C07", "C19"],
             "kind_free_text": "orientation / shortcut plumbing of ClipperOffset; structural clauses of Minkowski"},
            {"name": "E6", "path": "/verif/vlib/engines/e6_siblings.py", "serves_properties": ["C15", "C16", "C05"],
             "kind_free_text": "sibling identity: USINGZ vs plain per function, 64 vs D builders"},
            {"name": "E7", "path": "/verif/vlib/engines/e7_zaccount.py", "serves_properties": ["C15"],
             "kind_free_text": "Z accounting must-follow analysis and SetZ table"},
            {"name": "E3", "path": "/verif/vlib/engines/e3_tables.py", "serves_properties": ["C01", "C05", "C08", "C09", "C13", "C18"],
             "kind_free_text": "finite decision tables by abstract interpretation of the AST (vlib/evalx.py) against definitional oracles"},
            {"name": "E4", "path": "/verif/vlib/engines/e4_layout.py", "serves_properties": ["C17"],
             "kind_free_text": "flat-array layout shapes and exported-parameter forwarding"},
            {"name": "E8", "path": "/verif/vlib/engines/e8_scale.py", "serves_properties": ["C16", "C17"],
             "kind_free_text": "dimensional analysis of the scale factor through the D API"},
            {"name": "E5", "path": "/verif/vlib/engines/e5_errors.py", "serves_properties": ["C11"],
             "kind_free_text": "error-discipline path rules on the structured CFG (vlib/flow.py)"},
        ],
        "checks": checks,
        "notes": "Technique family: static analysis only. Exit 2 = analysis broken (anchor vanished / floor / control), never pass or violation.",
        "not_applicable": na,
    }
    with open(os.path.join(VERIF, "MANIFEST.json"), "w") as f:
        json.dump(man, f, indent=1)
    print("wrote MANIFEST.json: %d checks, %d not_applicable" % (len(checks), len(na)))


if __name__ == "__main__":
    main()
