#!/usr/bin/env python3
"""Silence test: behaviour-preserving edits must not make any check report a violation.

Each entry applies one realistic refactoring that does not change behaviour to a
scratch copy of the analysed sources and runs every registered check against it.
Outcome per (edit, check): ok (exit 0), ALARM (exit 1: a false alarm), or broken
(exit 2: the analysis refuses - tolerated, but listed).  Used by hand while
developing the engines; not part of any registered command.
"""
import json
import os
import shutil
import subprocess
import sys
import tempfile
from concurrent.futures import ThreadPoolExecutor

VERIF = os.path.dirname(os.path.dirname(os.path.abspath(__file__)))
sys.path.insert(0, VERIF)
E = "CPP/Clipper2Lib/src/clipper.engine.cpp"
O = "CPP/Clipper2Lib/src/clipper.offset.cpp"
R = "CPP/Clipper2Lib/src/clipper.rectclip.cpp"
H = "CPP/Clipper2Lib/include/clipper2/"

EDITS = [
    ("empty() instead of size()==0", H + "clipper.core.h", "    if (path.size() == 0) return Path<T>();", "    if (path.empty()) return Path<T>();"),
    ("swap two independent clears in CleanUp", E, "    horz_seg_list_.clear();\n    horz_join_list_.clear();", "    horz_join_list_.clear();\n    horz_seg_list_.clear();"),
    ("rename a local in DoGroupOffset", O, None, None),
    ("counted loop instead of range-for over edges_", R, "      for (OutPt2List &edge : edges_) edge.clear();", "      for (size_t k = 0; k < 8; ++k) edges_[k].clear();"),
    ("new const helper method and constant", E, "  void ClipperBase::CleanUp()\n  {", "  static const int verif_benign_constant = 42;\n  inline int BenignHelper(int v) { return v + verif_benign_constant; }\n\n  void ClipperBase::CleanUp()\n  {"),
    ("operands of a comparison swapped", E, "        return (e.wind_cnt2 > 0);", "        return (0 < e.wind_cnt2);"),
    ("setter calls reordered in BooleanOp64", H + "clipper.export.h", "  Clipper64 clipper;\n  clipper.PreserveCollinear(preserve_collinear);\n  clipper.ReverseSolution(reverse_solution);\n#ifdef USINGZ\n  if (dllCallback64)\n    clipper.SetZCallback(dllCallback64);\n#endif\n  if (sub.size() > 0) clipper.AddSubject(sub);\n  if (sub_open.size() > 0) clipper.AddOpenSubject(sub_open);\n  if (clp.size() > 0) clipper.AddClip(clp);\n  if (!clipper.Execute(ClipType(cliptype), FillRule(fillrule), sol, sol_open))",
     "  Clipper64 clipper;\n  clipper.ReverseSolution(reverse_solution);\n  clipper.PreserveCollinear(preserve_collinear);\n#ifdef USINGZ\n  if (dllCallback64)\n    clipper.SetZCallback(dllCallback64);\n#endif\n  if (sub.size() > 0) clipper.AddSubject(sub);\n  if (sub_open.size() > 0) clipper.AddOpenSubject(sub_open);\n  if (clp.size() > 0) clipper.AddClip(clp);\n  if (!clipper.Execute(ClipType(cliptype), FillRule(fillrule), sol, sol_open))"),
    ("clears reordered in ClipperD::Execute(tree)", H + "clipper.engine.h", "\t\t\t\tpolytree.Clear();\n\t\t\t\tpolytree.SetScale(invScale_);\n\t\t\t\topen_paths.clear();", "\t\t\t\topen_paths.clear();\n\t\t\t\tpolytree.Clear();\n\t\t\t\tpolytree.SetScale(invScale_);"),
    ("early return restructured in Length", H + "clipper.h", "    double result = 0.0;\n    if (path.size() < 2) return result;\n    auto it = path.cbegin(), stop = path.end() - 1;", "    if (path.size() < 2) return 0.0;\n    double result = 0.0;\n    auto it = path.cbegin(), stop = path.end() - 1;"),
    ("explicit this-> on a member", E, "    intersect_nodes_.clear();\n    DisposeAllOutRecs();", "    this->intersect_nodes_.clear();\n    DisposeAllOutRecs();"),
    ("if/else instead of conditional operator for group_delta_", O, "\t\tgroup_delta_ = (group.is_reversed) ? -delta : delta;", "\t\tif (group.is_reversed) group_delta_ = -delta;\n\t\telse group_delta_ = delta;"),
    ("extra parentheses and a comment in CheckPrecisionRange", H + "clipper.core.h", "    if (precision >= -CLIPPER2_MAX_DEC_PRECISION &&\n      precision <= CLIPPER2_MAX_DEC_PRECISION) return;", "    // accepted range\n    if ((precision >= -CLIPPER2_MAX_DEC_PRECISION) &&\n      (precision <= CLIPPER2_MAX_DEC_PRECISION)) return;"),
    ("switch case order changed in IsContributingClosed", E, "    case ClipType::Xor: return true;  break;\n    // Should never happen, but adding this to stop a compiler warning\n    default:\n      break;\n    }\n    return false;  // we should never get here",
     "    case ClipType::Xor: return true;\n    // Should never happen, but adding this to stop a compiler warning\n    default:\n      break;\n    }\n    return false;  // we should never get here"),
    ("two increments instead of += 2 in a reader", H + "clipper.export.h", "    size_t cnt2 = static_cast<size_t>(*v);\n    v += 2; \n    Path<T> path;", "    size_t cnt2 = static_cast<size_t>(*v);\n    ++v; ++v;\n    Path<T> path;"),
    ("length formula split in two statements", H + "clipper.export.h", "      array_len += path.size() * EXPORT_VERTEX_DIMENSIONALITY + 2;", "      array_len += 2;\n      array_len += path.size() * EXPORT_VERTEX_DIMENSIONALITY;"),
    ("inverse scale hoisted into a local", H + "clipper.h", "    clip_offset.Execute(delta * scale, solution);\n    return ScalePaths<double, int64_t>(solution, 1 / scale, error_code);", "    clip_offset.Execute(delta * scale, solution);\n    const double inv_scale = 1 / scale;\n    return ScalePaths<double, int64_t>(solution, inv_scale, error_code);"),
    ("result declared earlier in BooleanOp(PathsD)", H + "clipper.h", "    int error_code = 0;\n    CheckPrecisionRange(precision, error_code);\n    PathsD result;\n    if (error_code) return result;\n    ClipperD clipper(precision);\n    clipper.AddSubject(subjects);\n    clipper.AddClip(clips);\n    clipper.Execute(cliptype, fillrule, result);", "    PathsD result;\n    int error_code = 0;\n    CheckPrecisionRange(precision, error_code);\n    if (error_code) return result;\n    ClipperD clipper(precision);\n    clipper.AddSubject(subjects);\n    clipper.AddClip(clips);\n    clipper.Execute(cliptype, fillrule, result);"),
    ("push_back instead of emplace_back in TrimCollinear", H + "clipper.h", "    prevIt = srcIt++;\n    dst.emplace_back(*prevIt);", "    prevIt = srcIt++;\n    dst.push_back(*prevIt);"),
    ("assignments swapped in ClipperOffset::Execute", O, "\tsolution = &paths64;\n\tsolution_tree = nullptr;", "\tsolution_tree = nullptr;\n\tsolution = &paths64;"),
    ("while(true) instead of for(;;) in SimplifyPath", H + "clipper.h", "    for (;;)\n    {\n      if (distSqr[curr] > epsSqr)", "    while (true)\n    {\n      if (distSqr[curr] > epsSqr)"),
    ("end type hoisted into a local in DoGroupOffset", O, "\tif (group.end_type == EndType::Polygon)\n\t{\n\t\t// a straight path", "\tconst EndType group_end_type = group.end_type;\n\tif (group_end_type == EndType::Polygon)\n\t{\n\t\t// a straight path"),
    ("Z result variable renamed in IntersectEdges", E, None, "resultOp->zOp"),
    ("null test written as == nullptr in BuildPath64", E, "    if (!op || op->next == op || (!isOpen && op->next == op->prev))\n      return false;\n\n    path.resize(0);\n    Point64 lastPt;\n    OutPt* op2;\n    if (reverse)\n    {\n      lastPt = op->pt;\n      op2 = op->prev;\n    }\n    else\n    {\n      op = op->next;\n      lastPt = op->pt;\n      op2 = op->next;\n    }\n    path.emplace_back(lastPt);", "    if (op == nullptr || op->next == op || (!isOpen && op->next == op->prev))\n      return false;\n\n    path.resize(0);\n    Point64 lastPt;\n    OutPt* op2;\n    if (reverse)\n    {\n      lastPt = op->pt;\n      op2 = op->prev;\n    }\n    else\n    {\n      op = op->next;\n      lastPt = op->pt;\n      op2 = op->next;\n    }\n    path.emplace_back(lastPt);"),
    ("delta of Minkowski computed with an if", H + "clipper.minkowski.h", "      size_t delta = isClosed ? 0 : 1;", "      size_t delta = 1;\n      if (isClosed) delta = 0;"),
    ("fill-rule branches of the offset clean-up swapped", O, "\t\tif (paths_reversed)\n\t\t\tc.Execute(ClipType::Union, FillRule::Negative, *solution);\n\t\telse\n\t\t\tc.Execute(ClipType::Union, FillRule::Positive, *solution);", "\t\tif (!paths_reversed)\n\t\t\tc.Execute(ClipType::Union, FillRule::Positive, *solution);\n\t\telse\n\t\t\tc.Execute(ClipType::Union, FillRule::Negative, *solution);"),
    ("locals renamed in IntersectEdges", E, None, "old_e1_windcnt->prev_wc1"),
    ("hot test hoisted into a local in DoTopOfScanbeam", E, "          if (IsHotEdge(*e)) AddOutPt(*e, e->top);\n          UpdateEdgeIntoAEL(e);", "          const bool is_hot = IsHotEdge(*e);\n          if (is_hot) AddOutPt(*e, e->top);\n          UpdateEdgeIntoAEL(e);"),
    ("abs via std::llabs in the open toggle", E, "      if (abs(edge_c->wind_cnt) != 1) return;\n      switch (cliptype_)", "      if (std::abs(edge_c->wind_cnt) != 1) return;\n      switch (cliptype_)"),
    ("RectClipLines: explicit false for start_new when leaving", R, "      else // path must be exiting rect\n      {\n        Add(ip);\n      }", "      else // path must be exiting rect\n      {\n        Add(ip, false);\n      }"),
    ("GetLocation tests the vertical sides before the horizontal ones", R, "    else if (pt.x < rec.left) loc = Location::Left;\n    else if (pt.x > rec.right) loc = Location::Right;\n    else if (pt.y < rec.top) loc = Location::Top;\n    else if (pt.y > rec.bottom) loc = Location::Bottom;",
     "    else if (pt.y < rec.top) loc = Location::Top;\n    else if (pt.y > rec.bottom) loc = Location::Bottom;\n    else if (pt.x < rec.left) loc = Location::Left;\n    else if (pt.x > rec.right) loc = Location::Right;"),
    ("TrimCollinear tests against dst.back()", H + "clipper.h", "      if (!IsCollinear(*prevIt, *srcIt, *(srcIt + 1)))", "      if (!IsCollinear(dst.back(), *srcIt, *(srcIt + 1)))"),
    ("Group: closedness flag renamed and made const", O, "\tbool is_joined =\n\t\t(end_type == EndType::Polygon) ||\n\t\t(end_type == EndType::Joined);\n\tfor (Path64& p: paths_in)\n\t  StripDuplicates(p, is_joined);", "\tconst bool paths_are_closed = (end_type == EndType::Joined) || (end_type == EndType::Polygon);\n\tfor (Path64& p: paths_in)\n\t  StripDuplicates(p, paths_are_closed);"),
    ("Minkowski: closed sum computed with the shorter outline outside", H + "clipper.minkowski.h", "      if (patLen == 0 || pathLen == 0) return Paths64();\n", "      if (patLen == 0 || pathLen == 0) return Paths64();\n      if (isSum && isClosed && pathLen > patLen) return Minkowski(path, pattern, true, true);\n"),
    ("link writes of AddOutPt in another order", E, "    op_back->prev = new_op;\n    new_op->prev = op_front;\n    new_op->next = op_back;\n    op_front->next = new_op;", "    new_op->next = op_back;\n    new_op->prev = op_front;\n    op_front->next = new_op;\n    op_back->prev = new_op;"),
    ("DoSplitOp publishes the new ring after closing it", E, "      newOr->pts = newOp;\n      splitOp->prev = newOp;\n      splitOp->next->next = newOp;", "      splitOp->prev = newOp;\n      splitOp->next->next = newOp;\n      newOr->pts = newOp;"),
    ("JoinOutrecPaths: ends read through a helper local", E, "    OutPt* p1_end = p1_st->next;\n    OutPt* p2_end = p2_st->next;\n    if (IsFront(e1))", "    OutPt* p2_end = p2_st->next;\n    OutPt* p1_end = p1_st->next;\n    const bool e1_is_front = IsFront(e1);\n    if (e1_is_front)"),
    ("DisposeOutPt keeps the neighbours in locals", E, "    OutPt* result = op->next;\n    op->prev->next = op->next;\n    op->next->prev = op->prev;\n    delete op;\n    return result;", "    OutPt* result = op->next;\n    OutPt* before = op->prev;\n    before->next = result;\n    result->prev = before;\n    delete op;\n    return result;"),
    ("ProcessHorzJoins: OutRecList allocated before use in a local", E, "          if (!or1->splits) or1->splits = new OutRecList();\n          or1->splits->emplace_back(or2);", "          if (!or1->splits)\n          {\n            OutRecList* fresh_list = new OutRecList();\n            or1->splits = fresh_list;\n          }\n          or1->splits->emplace_back(or2);"),
]


def checks():
    man = json.load(open(os.path.join(VERIF, "MANIFEST.json")))
    only = os.environ.get("BENIGN_CHECKS", "").split()
    return [c["property_id"] for c in man["checks"] if not only or c["property_id"] in only]


def run_one(args):
    name, rel, old, new = args
    d = tempfile.mkdtemp(prefix="clipper2_benign.")
    try:
        os.makedirs(os.path.join(d, "CPP"))
        shutil.copytree("/repo/CPP/Clipper2Lib", os.path.join(d, "CPP", "Clipper2Lib"))
        shutil.copy("/repo/CPP/CMakeLists.txt", os.path.join(d, "CPP", "CMakeLists.txt"))
        if rel == "@patch":
            # a unified diff against the repository root (committed under /verif/benign/)
            r = subprocess.run(["patch", "-p1", "-s", "-d", d, "-i", old], stdout=subprocess.PIPE, stderr=subprocess.STDOUT)
            if r.returncode != 0:
                return name, {"*": "patch does not apply: " + r.stdout.decode()[:200]}
            rel = "CPP/Clipper2Lib/src/clipper.engine.cpp"
            p = os.path.join(d, rel)
            s = open(p).read()
        else:
            p = os.path.join(d, rel)
            s = open(p).read()
        if rel == "CPP/Clipper2Lib/src/clipper.engine.cpp" and old is not None and old.endswith(".diff"):
            pass
        elif old is None and new and "->" in new:
            a, b = new.split("->")
            if a not in s:
                return name, {"*": "anchor missing"}
            s = s.replace(a, b)
        elif old is None:
            if "abs_delta" not in s:
                return name, {"*": "anchor missing"}
            s = s.replace("abs_delta", "absDelta")
        else:
            if s.count(old) != 1:
                return name, {"*": "anchor occurs %d times" % s.count(old)}
            s = s.replace(old, new)
        open(p, "w").write(s)
        # must still compile
        r = subprocess.run(["clang++", "-std=gnu++17", "-fsyntax-only", "-Wall", "-Wextra", "-Wpedantic", "-Werror", "-Wno-c++20-compat",
                            "-I" + os.path.join(d, "CPP/Clipper2Lib/include"), os.path.join(d, "CPP/Clipper2Lib/src/clipper.engine.cpp"),
                            ], stdout=subprocess.PIPE, stderr=subprocess.STDOUT)
        if r.returncode != 0:
            return name, {"*": "edit does not compile: " + r.stdout.decode()[:200]}
        env = dict(os.environ)
        env.update({"VERIF_REPO": d, "VERIF_NO_EVIDENCE": "1", "VERIF_WORK": os.path.join(d, ".work")})
        res = {}
        for pid in checks():
            r = subprocess.run([sys.executable, os.path.join(VERIF, "check.py"), pid, "--tier", "quick"], env=env,
                               stdout=subprocess.PIPE, stderr=subprocess.STDOUT)
            out = r.stdout.decode(errors="replace")
            if r.returncode == 0:
                res[pid] = "ok"
            elif r.returncode == 1:
                res[pid] = "ALARM: " + " | ".join(l.strip()[:160] for l in out.splitlines() if l.startswith("  rule"))[:400]
            else:
                res[pid] = "broken: " + (out.strip().splitlines()[-1][:200] if out.strip() else "")
        return name, res
    finally:
        shutil.rmtree(d, ignore_errors=True)


def patch_edits():
    """Behaviour-preserving patches kept as files: /verif/benign/<name>.diff (written by independent sub-agents, confirmed by me)."""
    out = []
    bd = os.path.join(VERIF, "benign")
    if os.path.isdir(bd):
        for fn in sorted(os.listdir(bd)):
            if fn.endswith(".diff"):
                out.append(("patch " + fn[:-5], "@patch", os.path.join(bd, fn), None))
    return out


def main():
    sel = sys.argv[1:]
    extra = []
    if sel and sel[0] == "--patch":
        extra = [("patch " + os.path.join(os.path.basename(os.path.dirname(f)), os.path.basename(f)), "@patch", f, None) for f in sel[1:]]
        sel = ["\0"]
    edits = [e for e in EDITS + patch_edits() if not sel or any(s in e[0] for s in sel)] + extra
    with ThreadPoolExecutor(max_workers=7) as ex:
        for name, res in ex.map(run_one, edits):
            bad = {k: v for k, v in res.items() if v != "ok"}
            print("== %s: %s" % (name, "all %d checks silent" % len(res) if not bad else ""))
            for k, v in bad.items():
                print("     %s %s" % (k, v))
            sys.stdout.flush()


if __name__ == "__main__":
    main()
