#!/usr/bin/env python3
"""Run a check against a scratch copy of the analysed sources with one edit applied.

usage: mutate.py <property> <file-relative-to-repo> <old> <new> [--expect-rule RULE] [--count N] [--tier quick]

The copy lives in a mktemp directory outside /repo and /verif and is removed on
exit.  Exit status: 0 if the check reported a violation (and, if given, one of
rule RULE); 1 if the check stayed silent; 2 on analysis-broken or bad usage.
Used for the positive controls of the thorough tier and for testing by hand.
"""
import argparse
import os
import shutil
import subprocess
import sys
import tempfile

VERIF = os.path.dirname(os.path.dirname(os.path.abspath(__file__)))


def make_copy(repo="/repo"):
    d = tempfile.mkdtemp(prefix="clipper2_mut.")
    os.makedirs(os.path.join(d, "CPP"))
    shutil.copytree(os.path.join(repo, "CPP", "Clipper2Lib"), os.path.join(d, "CPP", "Clipper2Lib"))
    shutil.copy(os.path.join(repo, "CPP", "CMakeLists.txt"), os.path.join(d, "CPP", "CMakeLists.txt"))
    return d


def apply_edit(root, rel, old, new, count=1):
    p = os.path.join(root, rel)
    s = open(p).read()
    if s.count(old) < 1:
        raise SystemExit("mutate: pattern not found in %s: %r" % (rel, old))
    if count and s.count(old) != count:
        raise SystemExit("mutate: pattern occurs %d times in %s (expected %d): %r" % (s.count(old), rel, count, old))
    s = s.replace(old, new)
    open(p, "w").write(s)


def run_check(root, pid, tier="quick", quiet=True):
    env = dict(os.environ)
    env["VERIF_REPO"] = root
    env["VERIF_NO_EVIDENCE"] = "1"
    env["VERIF_WORK"] = os.path.join(root, ".work")
    r = subprocess.run([sys.executable, os.path.join(VERIF, "check.py"), pid, "--tier", tier],
                       env=env, stdout=subprocess.PIPE, stderr=subprocess.STDOUT)
    return r.returncode, r.stdout.decode(errors="replace")


def main():
    ap = argparse.ArgumentParser()
    ap.add_argument("pid")
    ap.add_argument("file")
    ap.add_argument("old")
    ap.add_argument("new")
    ap.add_argument("--expect-rule", default=None)
    ap.add_argument("--count", type=int, default=1)
    ap.add_argument("--tier", default="quick")
    ap.add_argument("-v", action="store_true")
    a = ap.parse_args()
    d = make_copy()
    try:
        apply_edit(d, a.file, a.old, a.new, a.count)
        rc, out = run_check(d, a.pid, a.tier)
        if a.v or rc not in (0, 1):
            print(out)
        else:
            for l in out.splitlines():
                if l.startswith("VIOLATION") or l.startswith("  rule") or l.startswith("ANALYSIS") or l.startswith("KNOWN"):
                    print(l[:400])
        if rc == 1:
            if a.expect_rule and ("rule %s" % a.expect_rule) not in out:
                print("mutate: violation reported but not by rule %s" % a.expect_rule)
                return 1
            print("mutate: DETECTED")
            return 0
        if rc == 0:
            print("mutate: MISSED (check stayed silent)")
            return 1
        print("mutate: analysis broken (rc=%d)" % rc)
        return 2
    finally:
        shutil.rmtree(d, ignore_errors=True)


if __name__ == "__main__":
    sys.exit(main())
