#!/usr/bin/env python3
"""Regression over the independently seeded changes in /verif/seeded: each patch is applied to a scratch copy of the analysed
sources (mktemp, removed afterwards) and the check of the property it breaks must report a violation (exit 1).
usage: run_seeds.py [id-substring ...] [--all-checks]
Used by hand while developing the engines; not part of any registered command."""
import json
import os
import shutil
import subprocess
import sys
import tempfile
from concurrent.futures import ThreadPoolExecutor

VERIF = os.path.dirname(os.path.dirname(os.path.abspath(__file__)))
EXPECT_MISS = {"C08b": "RectClip64 closing heuristic: not decided (DESIGN 9.3)",
               "C08e": "RectClip64::TidyEdges re-join bookkeeping: not decided (DESIGN 9.3)",
               "C03l": "DoSplitOp: sign convention of AreaTriangle's argument order (numeric orientation test): not decided (DESIGN 9.3)"}
# seeds that are (also) caught under another property than the one the author named
ALSO = {"C08a": ["C12"], "C10a": ["C12"], "C11b": ["C12"], "C12a": ["C08"], "C12b": ["C07"], "C13a": ["C10", "C18"], "C01b": ["C10", "C13", "C18"],
        "C06a": ["C07", "C12"], "C06b": ["C12"], "C12d": ["C06"], "C10c": ["C12"], "C05c": ["C12"], "C01c": ["C12"], "C13b": ["C05"], "C16c": ["C15"],
        "C13c": ["C15", "C03"], "C12c": ["C08"], "C07b": ["C06"], "C05d": ["C12"], "C07c": ["C06"], "C17d": ["C16"], "C03d": ["C04"],
        "C04e": ["C08"], "C06d": ["C07", "C15"],
        "C20e": ["C11", "C08"], "C03f": ["C13", "C15"], "C07e": ["C06", "C12"], "C01f": ["C18"], "C05f": ["C04"], "C18e": ["C13"],
        "C04f": ["C03", "C16"], "C16g": ["C05"], "C13f": ["C01"], "C09e": ["C08"],
        "C01g": ["C18", "C03"], "C15g": ["C16"], "C16h": ["C05"], "C06f": ["C07"],
        "C09f": ["C08"], "C08f": ["C09"], "C18g": ["C01"], "C13g": ["C16"], "C20g": ["C11"], "C03h": ["C05"], "C19g": ["C14"], "C06g": ["C07"], "C10h": ["C09", "C12"],
        "C09g": ["C08"], "C08g": ["C09"], "C07h": ["C06"], "C01i": ["C11", "C12"], "C04h": ["C18"], "C16j": ["C13"],
        "C11i": ["C12"], "C15i": ["C12"], "C06h": ["C12"], "C12j": ["C06", "C07"], "C17j": ["C16"], "C03i": ["C01", "C12"],
        "C09h": ["C08"], "C07i": ["C06"], "C13i": ["C01", "C18", "C20"], "C18i": ["C04"], "C01j": ["C13", "C18"],
        "C12k": ["C05"], "C05j": ["C03"], "C20j": ["C18"], "C03j": ["C05"],
        "C19j": ["C15"], "C13j": ["C01", "C12", "C03"], "C18j": ["C03"], "C06j": ["C07"],
        "C07j": ["C12"], "C10k": ["C03", "C05", "C16"], "C05k": ["C03"],
        "C04k": ["C16", "C13"], "C13k": ["C01", "C09"],
        "C05l": ["C16", "C04"],
        "C12l": ["C06", "C07"], "C16l": ["C05"], "C06k": ["C16", "C07"]}


def run(sid, all_checks=False):
    sd = os.path.join(VERIF, "seeded", sid)
    meta = json.load(open(os.path.join(sd, "meta.json")))
    pid = meta["breaks_property"]
    d = tempfile.mkdtemp(prefix="clipper2_seed.")
    try:
        os.makedirs(os.path.join(d, "CPP"))
        shutil.copytree("/repo/CPP/Clipper2Lib", os.path.join(d, "CPP", "Clipper2Lib"))
        shutil.copy("/repo/CPP/CMakeLists.txt", os.path.join(d, "CPP", "CMakeLists.txt"))
        r = subprocess.run(["patch", "-p1", "-s", "-d", d, "-i", os.path.join(sd, "patch.diff")], stdout=subprocess.PIPE, stderr=subprocess.STDOUT)
        if r.returncode != 0:
            return sid, pid, {"*": "patch does not apply: " + r.stdout.decode()[:120]}
        env = dict(os.environ)
        env.update({"VERIF_REPO": d, "VERIF_NO_EVIDENCE": "1", "VERIF_WORK": os.path.join(d, ".work")})
        res = {}
        pids = [pid] + (ALSO.get(sid, []) if all_checks else [])
        for p in pids:
            r = subprocess.run([sys.executable, os.path.join(VERIF, "check.py"), p, "--tier", "quick"], env=env, stdout=subprocess.PIPE, stderr=subprocess.STDOUT)
            out = r.stdout.decode(errors="replace")
            rules = sorted({l.split("rule ")[1].split(":")[0] for l in out.splitlines() if l.startswith("  rule ")})
            res[p] = ("caught by " + ", ".join(rules)) if r.returncode == 1 else ("MISSED" if r.returncode == 0 else "broken: " + out.strip().splitlines()[-1][:160])
        return sid, pid, res
    finally:
        shutil.rmtree(d, ignore_errors=True)


def main():
    args = [a for a in sys.argv[1:] if not a.startswith("--")]
    allc = "--all-checks" in sys.argv
    ids = sorted(x for x in os.listdir(os.path.join(VERIF, "seeded")) if os.path.isdir(os.path.join(VERIF, "seeded", x)))
    ids = [i for i in ids if not args or any(a in i for a in args)]
    bad = 0
    with ThreadPoolExecutor(max_workers=8) as ex:
        for sid, pid, res in ex.map(lambda i: run(i, allc), ids):
            for p, v in res.items():
                exp = sid in EXPECT_MISS and p == pid
                flag = ""
                if v == "MISSED" and not exp:
                    flag = "   <<<<<< REGRESSION"
                    bad += 1
                if v.startswith("broken") or p == "*":
                    flag = "   <<<<<< " + ("BROKEN" if p != "*" else "PATCH")
                    bad += 1
                if exp and v == "MISSED":
                    v = "missed (expected: %s)" % EXPECT_MISS[sid]
                print("%-5s vs %-3s: %s%s" % (sid, p, v, flag))
                sys.stdout.flush()
    print("seeds: %d, problems: %d" % (len(ids), bad))
    return 1 if bad else 0


if __name__ == "__main__":
    sys.exit(main())
